#!/bin/sh
# Offline bootstrap of the /verif machinery: contracts library into .deps, tool probe, shim self-test.
set -e
cd "$(dirname "$0")"
mkdir -p .deps .work evidence replay
if ! /venv/bin/python -c "import sys; sys.path.insert(0, '.deps'); import icontract" 2>/dev/null; then
    /venv/bin/pip install --quiet --no-index --find-links /opt/veriftools/wheels --target .deps icontract deal >/dev/null 2>&1 || \
    /venv/bin/pip install --no-index --find-links /opt/veriftools/wheels --target .deps icontract
fi
for t in clang++-14 g++ gfortran; do command -v $t >/dev/null || { echo "missing tool $t"; exit 1; }; done
/venv/bin/python -c "import sys; sys.path.insert(0, '.deps'); import icontract, naunet; print('setup ok: icontract', icontract.__version__)"
