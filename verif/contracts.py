"""Runtime contracts attached to the real naunet classes from the harness (no repository edit).

`install()` decorates `naunet.network.Network` in place with an icontract class invariant, so
every public call made by a workload - or by the repository's own tests when run with
`-p verif.contracts_plugin` - is followed by the consistency check below.  Evaluations are
counted; zero evaluations means the monitor was bypassed (inconclusive).
"""
from __future__ import annotations

import sys
from collections import Counter

COUNTS = Counter()
BROKEN = []          # (which, detail) recorded instead of raised when RECORD_ONLY
RECORD_ONLY = False


class InvariantBroken(AssertionError):
    pass


def network_problems(net) -> list[str]:
    """State-consistency of a Network, recomputed from the reactions it currently holds."""
    probs = []
    try:
        rl = net.reaction_list
        reactants, products = set(), set()
        for r in rl:
            reactants.update(s.name for s in r.reactants)
            products.update(s.name for s in r.products)
        required = {s.name for s in net._required_species}
        have_r = {s.name for s in net._reactants}
        have_p = {s.name for s in net._products}
        # compare through Species identity classes: names may differ in spelling (e-/E-, #X/GX)
        def classes(names_objs):
            return names_objs
        cached = set(net._reactants) | set(net._products)
        actual = set()
        for r in rl:
            actual.update(r.reactants)
            actual.update(r.products)
        if cached != actual:
            probs.append(f"cached reactant/product sets {sorted(s.name for s in cached)} != species of held reactions {sorted(s.name for s in actual)}")
        ar, ap = set(), set()
        for r in rl:
            ar.update(r.reactants)
            ap.update(r.products)
        if set(net._reactants) != ar:
            probs.append(f"cached reactants {sorted(s.name for s in net._reactants)} != {sorted(s.name for s in ar)}")
        if set(net._products) != ap:
            probs.append(f"cached products {sorted(s.name for s in net._products)} != {sorted(s.name for s in ap)}")
        if net._allowed_species:
            allowed = net._allowed_species
            for r in rl:
                bad = [s.name for s in r.reactants + r.products if s not in allowed]
                if bad:
                    probs.append(f"held reaction mentions disallowed species {bad}")
                    break
    except Exception as e:  # the invariant itself must not crash the workload
        probs.append(f"invariant evaluation raised {type(e).__name__}: {e}")
    return probs


def network_consistent(self) -> bool:
    COUNTS["network_invariant"] += 1
    probs = network_problems(self)
    if probs:
        COUNTS["network_invariant_broken"] += 1
        BROKEN.append(("network_invariant", probs[0]))
        if RECORD_ONLY:
            return True
        return False
    return True


_installed = False


def install(record_only=False):
    global _installed, RECORD_ONLY
    RECORD_ONLY = record_only
    if _installed:
        return
    import icontract
    import naunet.network as nn
    icontract.invariant(network_consistent, error=lambda self: InvariantBroken(BROKEN[-1][1] if BROKEN else "network inconsistent"))(nn.Network)
    _installed = True
