"""Workload generators: species from *compositions*, abstract reactions and networks.

Everything here is written from the chemistry / the format descriptions, never from naunet's
parsers: the expected parse of every name is known by construction (the composition it was
rendered from).  Cases are plain JSON-able dicts.
"""
from __future__ import annotations

import random

# naunet's documented default element list (species.py docstring / README)
DEFAULT_ELEMENTS = ["e", "E", "H", "D", "He", "C", "N", "O", "F", "Na", "Mg", "Al", "Si", "P", "S", "Cl", "Ar", "Ca",
                    "Fe", "Ni"]
DEFAULT_PSEUDO = ["CR", "CRP", "XRAY", "Photon", "PHOTON", "CRPHOT", "X", "M", "p", "o", "m", "c-", "l-", "*", "g"]
# mass numbers (protons + neutrons of the tabulated standard isotope), independent small table
MASSNUM = {"H": 1, "D": 2, "He": 4, "C": 12, "N": 14, "O": 16, "F": 19, "Na": 23, "Mg": 24, "Al": 27, "Si": 28,
           "P": 31, "S": 32, "Cl": 35, "Ar": 40, "Ca": 40, "Fe": 56, "Ni": 59, "13C": 13, "18O": 18, "15N": 15}
ISOTOPE_ELEMENTS = ["13C", "18O", "15N"]        # digit-leading element symbols a user list may add
CHEM_ELEMENTS = ["H", "D", "He", "C", "N", "O", "Si", "S", "Mg", "Fe", "Na", "Cl"]
PSEUDO_REACTANTS = ["CR", "CRP", "PHOTON", "Photon", "CRPHOT", "XRAY"]


def tokenize(core: str, symbols: list[str]):
    """Independent longest-match tokenizer of a name core (no charge, no prefix).
    Returns list of (symbol, count) or None if something is left over."""
    out, i = [], 0
    syms = sorted(symbols, key=len, reverse=True)
    while i < len(core):
        for s in syms:
            if core.startswith(s, i):
                i += len(s)
                j = i
                while j < len(core) and core[j].isdigit():
                    j += 1
                out.append((s, int(core[i:j]) if j > i else 1))
                i = j
                break
        else:
            return None
    return out


def render_core(parts: list[tuple[str, int]]) -> str:
    return "".join(el + (str(n) if n != 1 else "") for el, n in parts)


def make_species(parts, charge=0, surface=False, label="", prefix="#", electron=None) -> dict:
    """parts: ordered list of (element, count).  Returns the abstract species dict."""
    if electron:
        return {"name": electron, "comp": {}, "charge": -1, "surface": False, "label": "", "electron": True,
                "alias": ("e" if electron[0] == "e" else "E") + "M", "massnumber": 0}
    core = label + render_core(parts)
    sign = "+" * charge if charge > 0 else "-" * (-charge)
    name = (prefix if surface else "") + core + sign
    comp = {}
    for el, n in parts:
        comp[el] = comp.get(el, 0) + n
    alias = ("G" if surface else "") + core + ("I" * (charge + 1) if charge >= 0 else "M" * (-charge))
    return {"name": name, "comp": comp, "charge": charge, "surface": surface, "label": label, "electron": False,
            "alias": alias, "massnumber": sum(MASSNUM[e] * n for e, n in comp.items())}


def unambiguous(sp: dict, elements=DEFAULT_ELEMENTS, pseudo=DEFAULT_PSEUDO) -> bool:
    """The name must tokenize (longest match over elements+pseudo) back to its own composition."""
    if sp["electron"]:
        return True
    core = sp["name"].lstrip("#").rstrip("+-")
    if sp["surface"] and sp["name"][0] == "G":
        core = sp["name"][1:].rstrip("+-")
    toks = tokenize(core, elements + pseudo)
    if toks is None:
        return False
    comp = {}
    for s, n in toks:
        if s in pseudo:
            if n != 1:
                return False
            continue
        comp[s] = comp.get(s, 0) + n
    return comp == sp["comp"]


def random_parts(rng: random.Random, elements=CHEM_ELEMENTS, max_el=3, max_count=3, max_atoms=6):
    k = rng.choice([1, 1, 2, 2, 3][:max(1, min(5, max_el * 2 - 1))])
    els = rng.sample(elements, k)
    parts = []
    atoms = 0
    for e in els:
        n = rng.choice([1, 1, 1, 2, 2, 3][:max(1, max_count * 2)])
        n = min(n, max_count, max(1, max_atoms - atoms))
        parts.append((e, n))
        atoms += n
    return parts


def species_pool(rng: random.Random, n: int, ions=True, surface=False, labels=True, electron="e-",
                 prefix="#", elements=CHEM_ELEMENTS) -> list[dict]:
    pool, seen = [], set()

    def add(sp):
        key = (sp["alias"])
        if key in seen or sp["name"] in {p["name"] for p in pool}:
            return False
        if not unambiguous(sp):
            return False
        seen.add(key)
        pool.append(sp)
        return True

    # a few anchors that make networks realistic
    add(make_species([("H", 1)]))
    add(make_species([("H", 2)]))
    if ions:
        add(make_species([], electron=electron))
        add(make_species([("H", 1)], charge=1))
    tries = 0
    while len(pool) < n and tries < 50 * n:
        tries += 1
        parts = random_parts(rng, elements)
        charge = 0
        if ions and rng.random() < 0.35:
            charge = rng.choice([1, 1, 1, 2, -1])
        label = ""
        if labels and rng.random() < 0.12 and any(e in ("H", "D") and c >= 2 for e, c in parts):
            label = rng.choice(["o", "p", "m"])
        sp = make_species(parts, charge=charge, label=label)
        if not add(sp):
            continue
        if surface and charge == 0 and rng.random() < 0.5:
            add(make_species(parts, surface=True, label=label, prefix=prefix))
    return pool


# ------------------------------------------------------------------------------ reactions

def unbalanced_reaction(rng: random.Random, pool: list[dict], idx: int, allow_pseudo=True) -> dict:
    nre = rng.choice([1, 2, 2, 2, 3])
    reactants = [rng.choice(pool)["name"] for _ in range(nre)]
    if rng.random() < 0.3 and nre >= 2:
        reactants[1] = reactants[0]                      # H + H
    if rng.random() < 0.15 and nre == 3:
        reactants[2] = reactants[1] = reactants[0]       # H + H + H
    npr = rng.choice([0, 1, 1, 2, 2, 2, 3, 4, 5])
    products = [rng.choice(pool)["name"] for _ in range(npr)]
    if rng.random() < 0.25 and products:
        products[-1] = reactants[-1]                     # catalyst A + C -> B + C
    if rng.random() < 0.15 and len(products) >= 2:
        products[1] = products[0]                        # -> H + H
    pseudo = rng.choice(PSEUDO_REACTANTS) if allow_pseudo and nre <= 2 and rng.random() < 0.25 else None
    return {"reactants": reactants, "products": products, "pseudo": pseudo, "idx": idx}


def split_balanced(rng: random.Random, comp: dict, charge: int, electron: str, by_key: dict, maxprod=4):
    """Partition atoms `comp` and net charge into 1..maxprod product species (names)."""
    atoms = [e for e, n in sorted(comp.items()) for _ in range(n)]
    rng.shuffle(atoms)
    if not atoms:
        return None
    k = rng.randint(1, min(maxprod, len(atoms)))
    groups = [[] for _ in range(k)]
    for i, a in enumerate(atoms):
        groups[i if i < k else rng.randrange(k)].append(a)
    prods = []
    # charges: put the net charge on random groups, possibly creating ion pairs / free electrons
    charges = [0] * k
    nel = 0
    q = charge
    if rng.random() < 0.3:
        nel += 1
        q += 1          # one more positive charge balanced by a free electron
    for _ in range(abs(q)):
        charges[rng.randrange(k)] += 1 if q > 0 else -1
    for g, c in zip(groups, charges):
        gc = {}
        for a in g:
            gc[a] = gc.get(a, 0) + 1
        if c < -1 or c > 2:
            return None
        key = (tuple(sorted(gc.items())), c)
        sp = by_key.get(key)
        if sp is None:
            parts = sorted(gc.items(), key=lambda t: CHEM_ELEMENTS.index(t[0]) if t[0] in CHEM_ELEMENTS else 99)
            sp = make_species(parts, charge=c)
            if not unambiguous(sp):
                return None
        prods.append(sp)
    for _ in range(nel):
        prods.append(make_species([], electron=electron))
    return prods


def comp_of(sps: list[dict]):
    comp, q = {}, 0
    for s in sps:
        for e, n in s["comp"].items():
            comp[e] = comp.get(e, 0) + n
        q += s["charge"]
    return comp, q


def balanced_network(rng: random.Random, nspec: int, nreac: int, electron="e-", surface=False, labels=True,
                     prefix="#") -> dict:
    """Network whose every reaction conserves elements and charge *by construction*."""
    pool = species_pool(rng, nspec, ions=True, surface=surface, labels=labels, electron=electron, prefix=prefix)
    by_name = {s["name"]: s for s in pool}
    by_key = {}
    for s in pool:
        if not s["electron"] and not s["surface"] and not s["label"]:
            by_key.setdefault((tuple(sorted(s["comp"].items())), s["charge"]), s)
    reactions = []
    tries = 0
    while len(reactions) < nreac and tries < 40 * nreac:
        tries += 1
        nre = rng.choice([1, 2, 2, 2, 3])
        res = [rng.choice(pool) for _ in range(nre)]
        if rng.random() < 0.25 and nre >= 2:
            res[1] = res[0]
        comp, q = comp_of(res)
        if not comp:
            continue
        kind = rng.random()
        if surface and kind < 0.2:
            # phase change of one species: X -> #X or #X -> X (same composition)
            cand = [s for s in pool if not s["electron"] and s["charge"] == 0]
            s = rng.choice(cand)
            core = [(e, n) for e, n in s["comp"].items()]
            other = make_species(_parts_of(s), surface=not s["surface"], label=s["label"], prefix=prefix)
            res, prods = [s], [other]
        else:
            prods = split_balanced(rng, comp, q, electron, by_key)
            if prods is None:
                continue
            if labels and rng.random() < 0.15:
                # re-label a product that has an H2 unit (ortho/para forms have the same composition)
                for i, p in enumerate(prods):
                    if not p["electron"] and p["comp"].get("H", 0) >= 2 and not p["label"]:
                        prods[i] = make_species(_parts_of(p), charge=p["charge"], label=rng.choice(["o", "p"]))
                        break
        for p in prods:
            if p["name"] not in by_name:
                if not unambiguous(p):
                    break
                by_name[p["name"]] = p
                pool.append(p)
                if not p["electron"] and not p["surface"] and not p["label"]:
                    by_key.setdefault((tuple(sorted(p["comp"].items())), p["charge"]), p)
        else:
            pseudo = rng.choice(PSEUDO_REACTANTS) if len(res) <= 2 and rng.random() < 0.2 else None
            reactions.append({"reactants": [s["name"] for s in res], "products": [p["name"] for p in prods],
                              "pseudo": pseudo, "idx": len(reactions) + 1})
    used = {n for r in reactions for n in r["reactants"] + r["products"]}
    species = [by_name[n] for n in sorted(used)]
    return {"species": species, "reactions": reactions}


def _parts_of(sp: dict):
    """Recover ordered (element,count) parts from the rendered name core (labels stripped)."""
    name = sp["name"]
    core = name.rstrip("+-")
    if sp["surface"]:
        core = core[1:]
    if sp["label"]:
        core = core[len(sp["label"]):]
    toks = tokenize(core, DEFAULT_ELEMENTS)
    return toks


def structural_network(rng: random.Random, nspec: int, nreac: int, surface=False, electron="e-",
                       extra_isolated=1) -> dict:
    """Unbalanced network for C01-C03: repeated reactants, 3-body, catalysts, 0 products, pseudo-reactants,
    duplicates, isolated required species."""
    pool = species_pool(rng, nspec, ions=True, surface=surface, electron=electron)
    reactions = [unbalanced_reaction(rng, pool, i + 1) for i in range(nreac)]
    if reactions and rng.random() < 0.4:
        d = dict(rng.choice(reactions))
        d["idx"] = len(reactions) + 1
        reactions.append(d)                 # exact duplicate reaction
    used = {n for r in reactions for n in r["reactants"] + r["products"]}
    by_name = {s["name"]: s for s in pool}
    unused = [s for s in pool if s["name"] not in used]
    required = [s["name"] for s in unused[:extra_isolated]]
    species = [by_name[n] for n in sorted(used | set(required))]
    return {"species": species, "reactions": reactions, "required": required}


def distinct_alphas(rng: random.Random, n: int) -> list[float]:
    """Pairwise distinct, algebraically unrelated O(1) rate coefficients (53 random bits each)."""
    return [0.5 + 1.5 * rng.random() for _ in range(n)]


def positive_y(rng: random.Random, n: int, lo=0.5, hi=2.0) -> list[float]:
    return [lo + (hi - lo) * rng.random() for _ in range(n)]


# ------------------------------------------------------------------------------ upper-case spelling with a replacement table

UPPER_ELEMENTS = ["E", "H", "D", "HE", "C", "N", "O", "MG", "SI", "S", "CL", "FE", "NA"]
UPPER_PSEUDO = ["CR", "CRP", "PHOTON", "CRPHOT", "XRAY"]
UPPER_REPLACEMENT = {"E": "e", "HE": "He", "MG": "Mg", "SI": "Si", "CL": "Cl", "FE": "Fe", "NA": "Na"}


def upper_variant(net: dict, prefix="#") -> dict | None:
    """The same abstract network spelled the UCLCHEM way: element symbols in upper case, mapped back to the usual symbols by a
    replacement table (HE->He ...).  `name` becomes the upper-case spelling used in reactions and files; composition, charge and
    alias (built from the mapped symbols) stay those of the original species.  None when a name would be read differently by a
    longest-match tokenizer over the upper-case list, or carries a label the list does not know."""
    inv = {v: k for k, v in UPPER_REPLACEMENT.items()}
    ren, species = {}, []
    for sp in net["species"]:
        if sp["electron"]:
            new = dict(sp, name="E-", alias="eM")
        else:
            if sp["label"]:
                return None
            parts = _parts_of(sp)
            if parts is None:
                return None
            up = [(inv.get(e, e).upper(), n) for e, n in parts]
            core = render_core(up)
            if tokenize(core, UPPER_ELEMENTS + UPPER_PSEUDO) != up:
                return None
            q = sp["charge"]
            new = dict(sp, name=(prefix if sp["surface"] else "") + core + ("+" * q if q > 0 else "-" * (-q)))
        ren[sp["name"]] = new["name"]
        species.append(new)
    if len(set(ren.values())) != len(ren):
        return None
    pmap = {"Photon": "PHOTON"}
    reactions = [dict(r, reactants=[ren[x] for x in r["reactants"]], products=[ren[x] for x in r["products"]],
                      pseudo=(pmap.get(r["pseudo"], r["pseudo"]) if r.get("pseudo") else None)) for r in net["reactions"]]
    out = dict(net, species=species, reactions=reactions)
    if net.get("required"):
        out["required"] = [ren[x] for x in net["required"]]
    return out
