"""Independent readers of the bundled example networks (species lists only), so that the structural
checks can run on real-world networks: minimal (KIDA), primordial and deuterium (KROME), cloud (UCLCHEM, upper-case
element spelling with replacement, ice species, RR07 grain processes, ODE modifiers).

The readers follow the file formats, apply the example's allowed-species filter (a reaction that
mentions a species outside the list is not part of the network) and drop marker tokens."""
from __future__ import annotations

import importlib
from pathlib import Path

from . import chem


def species_from_name(name: str, elements: list[str], pseudo: list[str], replacement: dict | None = None, surface_prefix: str = "#") -> dict | None:
    replacement = replacement or {}
    if name.upper() in ("E", "E-"):
        sp = chem.make_species([], electron=name)
        if "E" in replacement and name[0] == "E":
            sp["alias"] = replacement["E"] + "M"
        return sp
    surface = bool(surface_prefix) and name.startswith(surface_prefix)
    if surface or replacement:
        # the example spells elements its own way (upper case) and maps them to the usual symbols: the macro alias is
        # built from the mapped symbols, ice species carry the G prefix
        body = name[len(surface_prefix):] if surface else name
        core = body.rstrip("+-")
        charge = body.count("+", len(core)) - body.count("-", len(core))
        toks = chem.tokenize(core, elements + pseudo)
        if toks is None:
            return None
        parts = [(replacement.get(s, s), n) for s, n in toks if s not in pseudo]
        sp = chem.make_species(parts, charge=charge, surface=surface, label="".join(s for s, n in toks if s in pseudo))
        sp["name"] = name
        return sp
    core = name.rstrip("+-")
    charge = name.count("+", len(core)) - name.count("-", len(core))
    if core.startswith("GRAIN"):
        return {"name": name, "comp": {"GRAIN": 1}, "charge": charge, "surface": False, "label": "", "electron": False,
                "alias": core + ("I" * (charge + 1) if charge >= 0 else "M" * (-charge)), "massnumber": 0}
    toks = chem.tokenize(core, elements + pseudo)
    if toks is None:
        return None
    label = "".join(s for s, n in toks if s in pseudo)
    parts = [(s, n) for s, n in toks if s not in pseudo]
    sp = chem.make_species(parts, charge=charge, label=label)
    sp["name"] = name
    sp["alias"] = core + ("I" * (charge + 1) if charge >= 0 else "M" * (-charge))
    return sp


def load(example: str, repo: Path) -> dict:
    mod = importlib.import_module(f"naunet.examples.{example}")
    path = repo / "naunet" / "examples" / example / mod.files
    allowed = set(mod.allowed_species)
    pseudo_tokens = set(mod.pseudo_elements) | {"Photon", "PHOTON", "CR", "CRP", "CRPHOT", "g"}
    reactions = []
    lines = path.read_text().splitlines()
    if mod.formats == "kida":
        for ln in lines:
            if not ln.strip():
                continue
            res = ln[:34].split()
            prs = ln[34:90].split()
            reactions.append((res, prs))
    elif mod.formats == "krome":
        fmt = "idx,r,r,r,p,p,p,p,tmin,tmax,rate".split(",")
        for ln in lines:
            s = ln.strip()
            if not s or s.startswith(("#", "//")):
                continue
            if s.startswith("@format:"):
                fmt = s[len("@format:"):].lower().split(",")
                continue
            if s.startswith("@"):
                continue
            vals = s.split(",")
            res = [v for k, v in zip(fmt, vals) if k == "r" and v]
            prs = [v for k, v in zip(fmt, vals) if k == "p" and v]
            reactions.append((res, prs))
    elif mod.formats == "uclchem":
        # r1,r2,r3,p1,p2,p3,p4,alpha,beta,gamma,tmin,tmax ; NAN = empty ; the second reactant may name the process
        pseudo_tokens |= {"NAN", "", "FREEZE", "DESOH2", "DESCR", "DEUVCR", "THERM", "DIFF", "CHEMDES"}
        for ln in lines:
            if not ln.strip():
                continue
            f = [x.strip() for x in ln.split(",")]
            reactions.append((f[0:3], f[3:7]))
    out, names = [], set()
    for i, (res, prs) in enumerate(reactions):
        res2 = [x for x in res if x not in pseudo_tokens]
        prs2 = [x for x in prs if x not in pseudo_tokens]
        if allowed and not all(x in allowed for x in res2 + prs2):
            continue
        out.append({"reactants": res2, "products": prs2, "pseudo": None, "idx": i + 1})
        names.update(res2 + prs2)
    elements = list(mod.elements)
    pseudo = [p for p in mod.pseudo_elements]
    species = []
    for n in sorted(names | set(mod.extra_species)):
        sp = species_from_name(n, elements, pseudo, dict(getattr(mod, "element_replacement", {}) or {}), getattr(mod, "surface_prefix", "#"))
        if sp is None:
            raise ValueError(f"cannot read species {n}")
        species.append(sp)
    used = {n for r in out for n in r["reactants"] + r["products"]}
    return {"species": species, "reactions": out, "required": [n for n in mod.extra_species if n not in used], "module": mod, "path": str(path)}
