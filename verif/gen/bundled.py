"""Independent readers of the bundled example networks (species lists only), so that the structural
checks can run on real-world networks: minimal (KIDA), primordial and deuterium (KROME).

The readers follow the file formats, apply the example's allowed-species filter (a reaction that
mentions a species outside the list is not part of the network) and drop marker tokens."""
from __future__ import annotations

import importlib
from pathlib import Path

from . import chem


def species_from_name(name: str, elements: list[str], pseudo: list[str]) -> dict | None:
    if name.upper() in ("E", "E-"):
        return chem.make_species([], electron=name)
    core = name.rstrip("+-")
    charge = name.count("+", len(core)) - name.count("-", len(core))
    if core.startswith("GRAIN"):
        return {"name": name, "comp": {"GRAIN": 1}, "charge": charge, "surface": False, "label": "", "electron": False,
                "alias": core + ("I" * (charge + 1) if charge >= 0 else "M" * (-charge)), "massnumber": 0}
    toks = chem.tokenize(core, elements + pseudo)
    if toks is None:
        return None
    label = "".join(s for s, n in toks if s in pseudo)
    parts = [(s, n) for s, n in toks if s not in pseudo]
    sp = chem.make_species(parts, charge=charge, label=label)
    sp["name"] = name
    sp["alias"] = core + ("I" * (charge + 1) if charge >= 0 else "M" * (-charge))
    return sp


def load(example: str, repo: Path) -> dict:
    mod = importlib.import_module(f"naunet.examples.{example}")
    path = repo / "naunet" / "examples" / example / mod.files
    allowed = set(mod.allowed_species)
    pseudo_tokens = set(mod.pseudo_elements) | {"Photon", "PHOTON", "CR", "CRP", "CRPHOT", "g"}
    reactions = []
    lines = path.read_text().splitlines()
    if mod.formats == "kida":
        for ln in lines:
            if not ln.strip():
                continue
            res = ln[:34].split()
            prs = ln[34:90].split()
            reactions.append((res, prs))
    elif mod.formats == "krome":
        fmt = "idx,r,r,r,p,p,p,p,tmin,tmax,rate".split(",")
        for ln in lines:
            s = ln.strip()
            if not s or s.startswith(("#", "//")):
                continue
            if s.startswith("@format:"):
                fmt = s[len("@format:"):].lower().split(",")
                continue
            if s.startswith("@"):
                continue
            vals = s.split(",")
            res = [v for k, v in zip(fmt, vals) if k == "r" and v]
            prs = [v for k, v in zip(fmt, vals) if k == "p" and v]
            reactions.append((res, prs))
    out, names = [], set()
    for i, (res, prs) in enumerate(reactions):
        res2 = [x for x in res if x not in pseudo_tokens]
        prs2 = [x for x in prs if x not in pseudo_tokens]
        if allowed and not all(x in allowed for x in res2 + prs2):
            continue
        out.append({"reactants": res2, "products": prs2, "pseudo": None, "idx": i + 1})
        names.update(res2 + prs2)
    elements = list(mod.elements)
    pseudo = [p for p in mod.pseudo_elements]
    species = []
    for n in sorted(names | set(mod.extra_species)):
        sp = species_from_name(n, elements, pseudo)
        if sp is None:
            raise ValueError(f"cannot read species {n}")
        species.append(sp)
    used = {n for r in out for n in r["reactants"] + r["products"]}
    return {"species": species, "reactions": out, "required": [n for n in mod.extra_species if n not in used], "module": mod, "path": str(path)}
