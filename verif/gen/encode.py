"""Encoders from abstract reactions to the six reaction-file formats naunet reads.

Written from the format descriptions (KIDA "kida.uva" readme, RATE12 readme of McElroy+2013,
the Walsh/Leeds fixed-width convention, KROME network files, UCLCHEM Makerates output, and
naunet's own exchange format as documented in its README), *not* from naunet's parsers.

Abstract reaction (dict):
  reactants [names], products [names], pseudo (marker token or None),
  alpha, beta, gamma, tmin, tmax, idx, plus format-specific: formula (kida), code (umist),
  rtype (leeds), marker (uclchem), type (native), rate (krome expression)
"""
from __future__ import annotations


def _e(v: float, width: int, prec: int) -> str:
    return f"{v:{width}.{prec}e}"


# ------------------------------------------------------------------ KIDA
# 3(a10,1x) 1x 5(a10,1x) 1x 3(e10.3,1x) e8.2 1x e8.2 1x a4 1x i2 i6 i6 i3 i6 i2 i3
def kida_line(r: dict, fill=False) -> str:
    res = list(r["reactants"])
    if r.get("pseudo"):
        res.append(r["pseudo"])
    prods = list(r["products"])
    assert len(res) <= 3 and len(prods) <= 5
    cols = "".join(f"{s:<11}" for s in res + [""] * (3 - len(res))) + " "
    cols += "".join(f"{s:<11}" for s in prods + [""] * (5 - len(prods))) + " "
    nums = " ".join([_e(r["alpha"], 10, 3), _e(r["beta"], 10, 3), _e(r["gamma"], 10, 3)])
    tail = f" {2.0:8.2e} {0.0:8.2e} logn {r.get('itype', 4):2d}{int(r['tmin']):6d}{int(r['tmax']):6d}" \
           f"{r.get('formula', 3):3d}{r['idx']:6d}{1:2d}{1:3d}"
    return cols + nums + tail


# ------------------------------------------------------------------ UMIST RATE12
# idx:code:R1:R2:P1:P2:P3:P4:NE:alpha:beta:gamma:Tl:Tu:ST:ACC:REF
def umist_line(r: dict) -> str:
    res = list(r["reactants"])
    if r.get("pseudo"):
        res.append(r["pseudo"])
    prods = list(r["products"])
    assert len(res) <= 2 and len(prods) <= 4
    f = [str(r["idx"]), r.get("code", "NN")] + res + [""] * (2 - len(res)) + prods + [""] * (4 - len(prods))
    f += ["1", repr(float(r["alpha"])), repr(float(r["beta"])), repr(float(r["gamma"])),
          _num(r["tmin"]), _num(r["tmax"]), "L", "C", '"verif"', ""]
    return ":".join(f)


def _num(v) -> str:
    v = float(v)
    return str(int(v)) if v == int(v) else repr(v)


# ------------------------------------------------------------------ Leeds (Walsh et al. 2015)
# idx(5) reactants(3x10) products(5x10) alpha(8) beta(9) gamma(10) Tl(5) Tu(5) type(3)
def leeds_line(r: dict) -> str:
    res = list(r["reactants"])
    if r.get("pseudo"):
        res.append(r["pseudo"])
    prods = list(r["products"])
    assert len(res) <= 3 and len(prods) <= 5
    s = f"{r['idx']:<5d}"
    s += "".join(f"{x:<10}" for x in res + [""] * (3 - len(res)))
    s += "".join(f"{x:<10}" for x in prods + [""] * (5 - len(prods)))
    s += leeds_num(r["alpha"], 8, "E") + leeds_num(r["beta"], 9, "f2") + leeds_num(r["gamma"], 10, "f1")
    s += f"{int(r['tmin']):5d}{int(r['tmax']):5d}{r.get('rtype', 1):3d}"
    return s


def leeds_num(v: float, width: int, kind: str) -> str:
    if kind == "E":
        t = f"{v:.2E}"
    elif kind == "f2":
        t = f"{v:.2f}"
    else:
        t = f"{v:.1f}"
    assert len(t) <= width, (t, width)
    return t.rjust(width)


# ------------------------------------------------------------------ UCLCHEM (Makerates output)
# R1,R2,R3,P1,P2,P3,P4,alpha,beta,gamma,Tmin,Tmax ; R2 may be a marker (CRP, PHOTON, FREEZE ...)
def uclchem_line(r: dict) -> str:
    res = list(r["reactants"])
    marker = r.get("marker") or r.get("pseudo")
    if marker:
        res = res[:1] + [marker] + res[1:]
    prods = list(r["products"])
    assert len(res) <= 3 and len(prods) <= 4
    f = res + ["NAN"] * (3 - len(res)) + prods + ["NAN"] * (4 - len(prods))
    f += [repr(float(r["alpha"])), repr(float(r["beta"])), repr(float(r["gamma"])), _num(r["tmin"]), _num(r["tmax"])]
    return ",".join(f)


# ------------------------------------------------------------------ KROME
def krome_header(fmt="idx,R,R,R,P,P,P,P,P,Tmin,Tmax,rate") -> str:
    return "@format:" + fmt


def krome_line(r: dict, nre=3, npr=5, tmin_s=None, tmax_s=None) -> str:
    res = list(r["reactants"])
    prods = list(r["products"])
    assert len(res) <= nre and len(prods) <= npr
    f = [str(r["idx"])] + res + [""] * (nre - len(res)) + prods + [""] * (npr - len(prods))
    f += [tmin_s if tmin_s is not None else _num(r["tmin"]), tmax_s if tmax_s is not None else _num(r["tmax"])]
    f += [r["rate"]]
    return ",".join(f)


def krome_line_cols(r: dict, cols: list[str], tmin_s=None, tmax_s=None) -> str:
    """A KROME data line for an arbitrary @format column list (tokens idx / R / P / Tmin / Tmax / rate, any case, any order;
    columns may be absent)."""
    res, prods = list(r["reactants"]), list(r["products"])
    out = []
    for c in cols:
        c = c.lower()
        if c == "idx":
            out.append(str(r["idx"]))
        elif c == "r":
            out.append(res.pop(0) if res else "")
        elif c == "p":
            out.append(prods.pop(0) if prods else "")
        elif c == "tmin":
            out.append(tmin_s if tmin_s is not None else _num(r["tmin"]))
        elif c == "tmax":
            out.append(tmax_s if tmax_s is not None else _num(r["tmax"]))
        elif c == "rate":
            out.append(r["rate"])
        else:
            raise ValueError(c)
    assert not res and not prods
    return ",".join(out)


# ------------------------------------------------------------------ native naunet exchange format
# idx(5),3 reactants(12),5 products(12),alpha,beta,gamma(10.3e),Tmin,Tmax(9.2f),type(4),source(8)
def naunet_line(r: dict) -> str:
    res = list(r["reactants"])
    if r.get("pseudo"):
        res.append(r["pseudo"])
    prods = list(r["products"])
    assert len(res) <= 3 and len(prods) <= 5
    f = [f"{r['idx']:<5}"] + [f"{x:>12}" for x in res + [""] * (3 - len(res))] + \
        [f"{x:>12}" for x in prods + [""] * (5 - len(prods))]
    f += [f"{r['alpha']:10.3e}", f"{r['beta']:10.3e}", f"{r['gamma']:10.3e}", f"{r['tmin']:9.2f}", f"{r['tmax']:9.2f}",
          f"{r.get('type', 100):>4}", f"{r.get('source', 'verif'):>8}"]
    return ",".join(f)


LINE = {"kida": kida_line, "umist": umist_line, "leeds": leeds_line, "uclchem": uclchem_line, "naunet": naunet_line}
LIMITS = {  # (max reactant tokens incl. pseudo/marker, max products)
    "kida": (3, 5), "umist": (2, 4), "leeds": (3, 5), "uclchem": (3, 4), "naunet": (3, 5), "krome": (3, 5),
}


def fits(fmt: str, r: dict) -> bool:
    nre = len(r["reactants"]) + (1 if (r.get("pseudo") or r.get("marker")) else 0)
    mr, mp = LIMITS[fmt]
    if nre > mr or len(r["products"]) > mp:
        return False
    width = {"kida": 10, "leeds": 9, "naunet": 12}.get(fmt)
    if width and any(len(n) > width for n in r["reactants"] + r["products"]):
        return False
    return True
