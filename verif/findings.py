"""Known findings: explanation models.

/verif/known_findings.json is committed and never written at run time.  A violation is
downgraded to `KNOWN-FINDING` only when (a) a classifier below recognises the *mechanism* from
the observation itself (never from a case hash or random values) and (b) the file lists that
mechanism id for the property with status "known".  Entries with status "fixed" suppress
nothing: if the behaviour returns it is reported as a fresh VIOLATION.
"""
from __future__ import annotations

import json
from pathlib import Path

_FILE = Path(__file__).resolve().parent.parent / "known_findings.json"
_CLASSIFIERS: dict[str, list] = {}


def _load():
    try:
        return json.loads(_FILE.read_text())["findings"]
    except FileNotFoundError:
        return []


def classifier(prop: str):
    def deco(fn):
        _CLASSIFIERS.setdefault(prop, []).append(fn)
        return fn
    return deco


def classify(prop: str, v: dict, case: dict | None):
    """Return the id of a *known* finding that explains violation v, else None."""
    known = {f["id"] for f in _load() if f["property"] == prop and f["status"] == "known"}
    if not known:
        return None
    for fn in _CLASSIFIERS.get(prop, []):
        try:
            fid = fn(v, case)
        except Exception:
            fid = None
        if fid and fid in known:
            return fid
    return None


def describe(fid: str) -> str:
    for f in _load():
        if f["id"] == fid:
            return f["what"]
    return fid


# --------------------------------------------------------------------------------------
# Classifiers.  Each looks only at what the monitor observed (v["kind"], v["witness"]).
# The monitors set v["witness"]["mechanism"] only after re-deriving the observed wrong value
# from the described mechanism (see the property modules); a bare kind match is not enough.

def _mech(v):
    return (v.get("witness") or {}).get("mechanism")


for _p in ("C01", "C02", "C03", "C04", "C05", "C06", "C07", "C08", "C09", "C10", "C11", "C12", "C13", "C14",
           "C15", "C16", "C17", "C18", "C19", "C20"):
    classifier(_p)(lambda v, case: _mech(v))
