"""Drive the real naunet command line in-process (cleo CommandTester)."""
from __future__ import annotations

import os
from pathlib import Path

DEFAULT_PSEUDO = ["CR", "CRP", "XRAY", "Photon", "PHOTON", "CRPHOT", "X", "M", "p", "o", "m", "c-", "l-", "\\*", "g"]
DEFAULT_ELEMENTS = ["e", "E", "H", "D", "He", "C", "N", "O", "F", "Na", "Mg", "Al", "Si", "P", "S", "Cl", "Ar", "Ca", "Fe", "Ni"]

INIT_DEFAULTS = {
    "name": "verifproj", "description": "x", "loading": "", "elements": ", ".join(DEFAULT_ELEMENTS), "pseudo-elements": ", ".join(DEFAULT_PSEUDO),
    "element-replacement": "", "surface-prefix": "#", "bulk-prefix": "@", "allowed-species": "", "extra-species": "", "binding": "", "yield": "",
    "grain-symbol": "GRAIN", "grain-model": "", "network-files": "", "file-formats": "", "heating": "", "cooling": "", "shielding": "",
    "solver": "cvode", "device": "cpu", "method": "dense",
}


def quote(v: str) -> str:
    return '"' + v + '"'


def run_command(name: str, argstr: str, cwd: Path):
    from cleo.testers.command_tester import CommandTester
    from naunet.console.application import Application
    old = os.getcwd()
    os.chdir(cwd)
    try:
        tester = CommandTester(Application().find(name))
        rc = tester.execute(argstr, interactive=False)     # never wait on stdin: unanswered questions take their default
        return rc, tester.io.fetch_output(), tester.io.fetch_error()
    finally:
        os.chdir(old)


def run_init(cwd: Path, options: dict, render=True, multi: dict | None = None):
    """options override INIT_DEFAULTS; multi = {"rate-modifier": [...], "ode-modifier": [...]} (repeatable options)."""
    opts = dict(INIT_DEFAULTS)
    opts.update(options)
    parts = [f"--{k}={quote(str(v))}" for k, v in opts.items()]
    for k, vals in (multi or {}).items():
        for v in vals:
            parts.append(f"--{k}={quote(v)}")
    if render:
        parts += ["--render", "--render-force"]
    return run_command("init", " ".join(parts), cwd)
