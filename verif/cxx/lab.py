"""The "cxx lab": compile generated naunet sources against the /verif shims with clang-14
sanitizers, link them with a generic command-driven driver and run command scripts.

Nothing here edits a generated statement.  The only instrumentation is (a) the shims that stand
in for SUNDIALS / Boost / CUDA, (b) ``-D`` seams on the fex/jac translation units, and (c) for
``.cu`` files the rewrite of the kernel *launch* statement ``K<<<...>>>(args)`` -> ``K(args)``.
"""
from __future__ import annotations

import json
import os
import re
import shutil
import subprocess
from pathlib import Path

HERE = Path(__file__).resolve().parent
SHIM = HERE / "shim"
CXX = os.environ.get("VERIF_CXX", "clang++-14")

SAN_FLAGS = [
    "-fsanitize=address,undefined,float-divide-by-zero",
    "-fno-sanitize-recover=undefined",
    "-fsanitize-recover=float-divide-by-zero",
    "-fno-omit-frame-pointer",
]
BASE_FLAGS = ["-std=c++14", "-O0", "-g", "-ffp-contract=off", "-Wall", "-Wno-unused-variable",
              "-Wno-unused-but-set-variable", "-Wno-unknown-pragmas", "-Wno-unused-function"]

SEAMS = [
    "-DEvalRates=verif_EvalRates",
    "-DEvalHeatingRates=verif_EvalHeatingRates",
    "-DEvalCoolingRates=verif_EvalCoolingRates",
    "-DGetNumDens=verif_GetNumDens",
    "-DGetMu=verif_GetMu",
    "-DGetGamma=verif_GetGamma",
]

CUDA_DEFS = ["-D__global__=", "-D__device__=", "-D__host__=", "-D__constant__=const", "-DVERIF_CUDA_EMUL=1",
             "-include", "cuda_emul.h"]   # nvcc includes cuda_runtime.h implicitly

ASAN_ENV = {
    "ASAN_OPTIONS": "detect_leaks=1:halt_on_error=1:abort_on_error=0:detect_stack_use_after_return=1:"
                    "redzone=1024:allocator_may_return_null=1:exitcode=86",
    "UBSAN_OPTIONS": "print_stacktrace=1:halt_on_error=0:exitcode=87",
    "LSAN_OPTIONS": "exitcode=88",
}


class BuildError(Exception):
    def __init__(self, unit: str, cmd: list[str], stderr: str):
        super().__init__(f"compile of {unit} failed")
        self.unit = unit
        self.cmd = cmd
        self.stderr = stderr

    def diagnostics(self) -> list[str]:
        return [l for l in self.stderr.splitlines() if re.search(r"\b(error|warning):", l)]


def tools_ok() -> list[str]:
    missing = []
    for t in (CXX, "g++", "gfortran"):
        if shutil.which(t) is None:
            missing.append(t)
    return missing


def _run(cmd, cwd=None, timeout=600):
    return subprocess.run(cmd, cwd=cwd, capture_output=True, text=True, timeout=timeout)


def compile_unit(src: Path, obj: Path, incs: list[Path], extra: list[str], sanitize=True, timeout=900):
    cmd = [CXX, *BASE_FLAGS, *(SAN_FLAGS if sanitize else []), *extra]
    for i in incs:
        cmd += ["-I", str(i)]
    cmd += ["-c", str(src), "-o", str(obj)]
    p = _run(cmd, timeout=timeout)
    if p.returncode != 0:
        raise BuildError(src.name, cmd, p.stderr)
    return p.stderr  # warnings


_runtime_cache: dict[tuple, Path] = {}


def runtime_object(cache_dir: Path, name: str, sanitize=True, extra=()) -> Path:
    """Compile a shim run-time source once per cache dir."""
    cache_dir.mkdir(parents=True, exist_ok=True)
    obj = cache_dir / (name.replace(".cpp", "") + ("_san" if sanitize else "_plain") + ".o")
    if not obj.exists():
        tmp = obj.with_suffix(f".{os.getpid()}.tmp.o")
        compile_unit(SHIM / name, tmp, [SHIM], list(extra), sanitize=sanitize)
        os.replace(tmp, obj)
    return obj


def _write_defs(proj: Path, build: Path):
    data_h = (proj / "include" / "naunet_data.h").read_text()
    fields = re.findall(r"^\s*double\s+(\w+)\s*(?:=[^;]*)?;", data_h, flags=re.M)
    (build / "verif_fields.def").write_text("".join(f"VERIF_FIELD({f})\n" for f in fields))
    const_h = (proj / "include" / "naunet_constants.h").read_text()
    consts = re.findall(r"^\s*extern\s+(?:__constant__\s+|const\s+)*double\s+(\w+)\s*;", const_h, flags=re.M)
    (build / "verif_consts.def").write_text("".join(f"VERIF_CONST({c})\n" for c in consts))
    macros_h = (proj / "include" / "naunet_macros.h").read_text()
    idx = re.findall(r"^#define\s+(IDX_\S+)\s+\S+\s*$", macros_h, flags=re.M)
    # only names that are legal identifiers can be printed by name; the others are reported by C09
    legal = [m for m in idx if re.fullmatch(r"[A-Za-z_]\w*", m)]
    (build / "verif_idx.def").write_text("".join(f"#ifdef {m}\nVERIF_IDX({m})\n#endif\n" for m in legal))
    return fields, consts, idx


def parse_macros(proj: Path) -> dict:
    """Textual view of naunet_macros.h (the compiled view comes from the driver's `idx`)."""
    txt = (proj / "include" / "naunet_macros.h").read_text()
    out = {"IDX": {}, "ELEM": {}, "raw_idx_lines": []}
    for m in re.finditer(r"^#define\s+(\S+)\s+(.*?)\s*$", txt, flags=re.M):
        name, val = m.group(1), m.group(2)
        if name.startswith("IDX_ELEM_"):
            out["ELEM"][name[len("IDX_ELEM_"):]] = val
            out["raw_idx_lines"].append(m.group(0))
        elif name.startswith("IDX_"):
            out["IDX"][name[len("IDX_"):]] = val
            out["raw_idx_lines"].append(m.group(0))
        elif name in ("NELEMENTS", "NSPECIES", "NHEATPROCS", "NCOOLPROCS", "NREACTIONS", "NNZ"):
            out[name] = int(val)
    return out


CORE_CVODE = ["naunet_constants.cpp", "naunet_fex.cpp", "naunet_jac.cpp", "naunet_physics.cpp", "naunet_rates.cpp",
              "naunet_utilities.cpp"]
CORE_ODEINT = ["naunet_constants.cpp", "naunet_ode.cpp", "naunet_physics.cpp", "naunet_utilities.cpp"]


def build_cvode(proj: Path, build: Path, method: str, cache: Path, seams=True, sanitize=True,
                units=None, link=True, extra_flags=(), core_only=False) -> dict:
    """Compile the generated cvode project (dense|sparse) and link it with driver_cvode.

    Returns {"exe": Path|None, "warnings": {unit: text}, "fields": [...], "consts": [...], "idx": [...]}
    Raises BuildError on the first unit that does not compile.
    """
    proj, build = Path(proj), Path(build)
    build.mkdir(parents=True, exist_ok=True)
    fields, consts, idx = _write_defs(proj, build)
    incs = [SHIM, proj / "include", build]
    srcdir = proj / "src"
    units = units or (CORE_CVODE if core_only else sorted(p.name for p in srcdir.glob("*.cpp")))
    objs, warns = [], {}
    for u in units:
        extra = list(extra_flags)
        if seams and u in ("naunet_fex.cpp", "naunet_jac.cpp"):
            extra += SEAMS
        obj = build / (u + ".o")
        warns[u] = compile_unit(srcdir / u, obj, incs, extra, sanitize=sanitize)
        objs.append(obj)
    exe = None
    if link:
        dflags = list(extra_flags) + (["-DVERIF_SPARSE=1"] if method == "sparse" else [])
        if core_only:
            dflags.append("-DVERIF_NO_NAUNET=1")
        dobj = build / "driver.o"
        warns["driver"] = compile_unit(HERE / "driver_cvode.cpp", dobj, incs, dflags, sanitize=sanitize)
        rt = runtime_object(cache, "shim_runtime.cpp", sanitize=sanitize)
        exe = build / "driver"
        cmd = [CXX, *(SAN_FLAGS if sanitize else []), "-o", str(exe), str(dobj), *map(str, objs), str(rt), "-lm"]
        p = _run(cmd)
        if p.returncode != 0:
            raise BuildError("link", cmd, p.stderr)
    return {"exe": exe, "warnings": warns, "fields": fields, "consts": consts, "idx": idx}


def build_odeint(proj: Path, build: Path, cache: Path, sanitize=True, link=True, extra_flags=(), core_only=False) -> dict:
    proj, build = Path(proj), Path(build)
    build.mkdir(parents=True, exist_ok=True)
    fields, consts, idx = _write_defs(proj, build)
    incs = [SHIM, proj / "include", build]
    srcdir = proj / "src"
    objs, warns = [], {}
    for u in (CORE_ODEINT if core_only else sorted(p.name for p in srcdir.glob("*.cpp"))):
        obj = build / (u + ".o")
        warns[u] = compile_unit(srcdir / u, obj, incs, list(extra_flags), sanitize=sanitize)
        objs.append(obj)
    exe = None
    if link:
        dobj = build / "driver.o"
        warns["driver"] = compile_unit(HERE / "driver_odeint.cpp", dobj, incs,
                                       list(extra_flags) + (["-DVERIF_NO_NAUNET=1"] if core_only else []), sanitize=sanitize)
        rt = runtime_object(cache, "odeint_runtime.cpp", sanitize=sanitize)
        exe = build / "driver"
        cmd = [CXX, *(SAN_FLAGS if sanitize else []), "-o", str(exe), str(dobj), *map(str, objs), str(rt), "-lm"]
        p = _run(cmd)
        if p.returncode != 0:
            raise BuildError("link", cmd, p.stderr)
    return {"exe": exe, "warnings": warns, "fields": fields, "consts": consts, "idx": idx}


_LAUNCH = re.compile(r"(\b\w+)\s*<<<([^;]*?)>>>\s*\(")
_LAUNCH_SUB = r"for (verif_launch_begin(\2); verif_launch_more(); verif_launch_next()) \1("


def build_cusparse(proj: Path, build: Path, cache: Path, seams=True, sanitize=True, extra_flags=(), core_only=False, with_naunet=False) -> dict:
    """CPU emulation of the cusparse back-end: the .cu kernel text is compiled as C++."""
    proj, build = Path(proj), Path(build)
    build.mkdir(parents=True, exist_ok=True)
    fields, consts, idx = _write_defs(proj, build)
    incs = [SHIM, proj / "include", build]
    srcdir = proj / "src"
    objs, warns = [], {}
    rewrites = 0
    for cu in sorted(srcdir.glob("*.cu")):
        if core_only and cu.stem == "naunet_renorm":
            continue
        txt = cu.read_text()
        txt2, n = _LAUNCH.subn(_LAUNCH_SUB, txt)   # the launch statement only
        rewrites += n
        cpp = build / (cu.stem + "_cu.cpp")
        cpp.write_text(f'#line 1 "{cu}"\n' + txt2)
        extra = CUDA_DEFS + list(extra_flags) + ["-x", "c++"]
        if seams and cu.stem in ("naunet_fex", "naunet_jac"):
            extra += SEAMS
        obj = build / (cu.stem + ".o")
        warns[cu.name] = compile_unit(cpp, obj, incs, extra, sanitize=sanitize)
        objs.append(obj)
    u = srcdir / "naunet_utilities.cpp"
    if u.exists():
        obj = build / "naunet_utilities.o"
        warns[u.name] = compile_unit(u, obj, incs, CUDA_DEFS + list(extra_flags), sanitize=sanitize)
        objs.append(obj)
    if with_naunet:
        # the generated class (Init / Solve / Finalize of the cusparse method), against the emulated CUDA + SUNDIALS surface
        u = srcdir / "naunet.cpp"
        obj = build / "naunet.o"
        warns[u.name] = compile_unit(u, obj, incs, CUDA_DEFS + list(extra_flags), sanitize=sanitize)
        objs.append(obj)
    dobj = build / "driver.o"
    warns["driver"] = compile_unit(HERE / "driver_cusparse.cpp", dobj, incs, CUDA_DEFS + list(extra_flags) + (["-DVERIF_WITH_NAUNET=1"] if with_naunet else []),
                                   sanitize=sanitize)
    rt = runtime_object(cache, "shim_runtime.cpp", sanitize=sanitize)
    rt2 = runtime_object(cache, "cuda_runtime.cpp", sanitize=sanitize, extra=CUDA_DEFS)
    exe = build / "driver"
    cmd = [CXX, *(SAN_FLAGS if sanitize else []), "-o", str(exe), str(dobj), *map(str, objs), str(rt), str(rt2), "-lm"]
    p = _run(cmd)
    if p.returncode != 0:
        raise BuildError("link", cmd, p.stderr)
    return {"exe": exe, "warnings": warns, "fields": fields, "consts": consts, "idx": idx, "launch_rewrites": rewrites}


class RunResult:
    def __init__(self, events, stderr, returncode, timed_out=False):
        self.events = events
        self.stderr = stderr
        self.returncode = returncode
        self.timed_out = timed_out
        self.ubsan = [l for l in stderr.splitlines() if "runtime error:" in l]
        # IEEE division by zero is defined behaviour (inf/NaN); it is reported in recover mode and only C16 treats it as an event
        self.fdz = [l for l in self.ubsan if "division by zero" in l]
        self.ubsan_hard = [l for l in self.ubsan if "division by zero" not in l]
        self.asan = [l for l in stderr.splitlines() if re.search(r"ERROR: (AddressSanitizer|LeakSanitizer)", l)]
        self.shim_abort = [e for e in events if e.get("ev") == "shim_abort"]

    @property
    def sanitizer_reports(self) -> list[str]:
        """memory-safety / undefined-behaviour reports (float-divide-by-zero excluded, see .fdz)"""
        return self.asan + self.ubsan_hard + [json.dumps(e) for e in self.shim_abort]

    def by_ev(self, ev):
        return [e for e in self.events if e.get("ev") == ev]

    def crashed(self) -> bool:
        # exit code 87 = "UBSan printed something"; with only float-divide-by-zero lines that is not a crash
        if self.returncode == 87 and not self.ubsan_hard and not self.asan:
            return self.timed_out
        return self.returncode != 0 or self.timed_out


def run_driver(exe: Path, commands: list[str], cwd: Path, timeout=300, leaks=True) -> RunResult:
    env = dict(os.environ)
    env.update(ASAN_ENV)
    if not leaks:
        env["ASAN_OPTIONS"] = env["ASAN_OPTIONS"].replace("detect_leaks=1", "detect_leaks=0")
    sym = shutil.which("llvm-symbolizer-14") or shutil.which("llvm-symbolizer")
    if sym:
        env["ASAN_SYMBOLIZER_PATH"] = sym
    inp = "\n".join(commands) + "\nquit\n"
    try:
        p = subprocess.run([str(exe)], input=inp, capture_output=True, text=True, cwd=str(cwd), timeout=timeout, env=env)
        out, err, rc, to = p.stdout, p.stderr, p.returncode, False
    except subprocess.TimeoutExpired as e:
        out = (e.stdout or b"").decode() if isinstance(e.stdout, bytes) else (e.stdout or "")
        err = (e.stderr or b"").decode() if isinstance(e.stderr, bytes) else (e.stderr or "")
        rc, to = -9, True
    events = []
    for line in out.splitlines():
        line = line.strip()
        if line.startswith("{"):
            try:
                events.append(json.loads(line))
            except Exception:
                events.append({"ev": "unparsable", "line": line[:200]})
    return RunResult(events, err, rc, to)


def fmt(v: float) -> str:
    return repr(float(v))
