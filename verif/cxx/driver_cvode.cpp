// Generic command-driven driver for a naunet project rendered with solver=cvode,
// method=dense|sparse.  Compiled per project (-DVERIF_SPARSE for method=sparse) together with
// the *unmodified* generated sources; the fex/jac units are compiled with -D seams that route
// EvalRates/EvalHeatingRates/EvalCoolingRates/GetNumDens/GetMu/GetGamma through verif_*.
//
// stdin: one command per line.  stdout: one JSON object per command (numbers as %.17g).
#include <cvode/cvode.h>
#include <math.h>
#include <nvector/nvector_serial.h>
#include <stdio.h>
#include <stdlib.h>
#include <string.h>
#include <sunmatrix/sunmatrix_dense.h>
#include <sunmatrix/sunmatrix_sparse.h>

#include <sstream>
#include <string>
#include <vector>
#include "verif_guard.h"

#ifndef VERIF_NO_NAUNET
#include "naunet.h"
#endif
#include "naunet_constants.h"
#include "naunet_macros.h"
#include "naunet_ode.h"
#include "naunet_physics.h"
#ifndef VERIF_NO_NAUNET
#include "naunet_renorm.h"
#endif
#include "verif_shim.h"

#ifndef NHEATPROCS
#define NHEATPROCS 0
#endif

/* ------------------------------------------------------------------ seams */
enum { MODE_PASS = 0, MODE_FROZEN = 1, MODE_INJECT = 2 };
static int g_mode = MODE_PASS;
static std::vector<double> seen_k, seen_kh, seen_kc, use_k, use_kh, use_kc;
static double seen_npar = 0, seen_mu = 0, seen_gamma = 0, use_npar = 1, use_mu = 1, use_gamma = 5.0 / 3.0;
static long seam_calls = 0;

int verif_EvalRates(realtype *k, realtype *y, NaunetData *d) {
    seam_calls++;
    int r = 0;
    if (g_mode == MODE_PASS) {
        // the real EvalRates writes into a buffer whose tail is poisoned; the caller's (stack) array gets a copy
        double *gk = verif_guarded_alloc(NREACTIONS);
        for (int i = 0; i < NREACTIONS; i++) gk[i] = k[i];
        r = EvalRates(gk, y, d);
        for (int i = 0; i < NREACTIONS; i++) k[i] = gk[i];
        verif_guarded_free(gk, NREACTIONS);
        seen_k.assign(k, k + NREACTIONS);
    } else {
        for (int i = 0; i < NREACTIONS; i++) k[i] = use_k[i];
    }
    return r;
}
#if NHEATPROCS
int verif_EvalHeatingRates(realtype *kh, realtype *y, NaunetData *d) {
    int r = 0;
    if (g_mode == MODE_PASS) {
        r = EvalHeatingRates(kh, y, d);
        seen_kh.assign(kh, kh + NHEATPROCS);
    } else {
        for (int i = 0; i < NHEATPROCS; i++) kh[i] = use_kh[i];
    }
    return r;
}
#endif
#if NCOOLPROCS
int verif_EvalCoolingRates(realtype *kc, realtype *y, NaunetData *d) {
    int r = 0;
    if (g_mode == MODE_PASS) {
        r = EvalCoolingRates(kc, y, d);
        seen_kc.assign(kc, kc + NCOOLPROCS);
    } else {
        for (int i = 0; i < NCOOLPROCS; i++) kc[i] = use_kc[i];
    }
    return r;
}
#endif
double verif_GetNumDens(double *y) {
    if (g_mode == MODE_PASS) return seen_npar = GetNumDens(y);
    return use_npar;
}
double verif_GetMu(double *y) {
    if (g_mode == MODE_PASS) return seen_mu = GetMu(y);
    return use_mu;
}
double verif_GetGamma(double *y) {
    if (g_mode == MODE_PASS) return seen_gamma = GetGamma(y);
    return use_gamma;
}

/* ------------------------------------------------------------------ output helpers */
static void pnum(double v) {
    if (v != v) printf("NaN");
    else if (isinf(v)) printf(v > 0 ? "Infinity" : "-Infinity");
    else printf("%.17g", v);
}
static void parr(const char *name, const double *v, long n) {
    printf("\"%s\":[", name);
    for (long i = 0; i < n; i++) { if (i) printf(","); pnum(v[i]); }
    printf("]");
}
static void parr_i(const char *name, const sunindextype *v, long n) {
    printf("\"%s\":[", name);
    for (long i = 0; i < n; i++) printf("%s%ld", i ? "," : "", (long)v[i]);
    printf("]");
}
static double sentinel() { return nan("0x5e7"); }

/* ------------------------------------------------------------------ state */
static NaunetData g_data;
static double g_y[NEQUATIONS];

static bool set_field(const std::string &name, double v) {
#define VERIF_FIELD(f) if (name == #f) { g_data.f = v; return true; }
#include "verif_fields.def"
#undef VERIF_FIELD
    return false;
}

static void run_fex(double *y, double *ydot) {
    SUNContext ctx;
    SUNContext_Create(NULL, &ctx);
    N_Vector u  = N_VNew_Serial(NEQUATIONS, ctx);   // exactly NEQUATIONS doubles on the heap
    N_Vector ud = N_VNew_Serial(NEQUATIONS, ctx);
    for (int i = 0; i < NEQUATIONS; i++) { N_VGetArrayPointer(u)[i] = y[i]; N_VGetArrayPointer(ud)[i] = sentinel(); }
    Fex(0.0, u, ud, &g_data);
    for (int i = 0; i < NEQUATIONS; i++) ydot[i] = N_VGetArrayPointer(ud)[i];
    N_VDestroy(u);
    N_VDestroy(ud);
    SUNContext_Free(&ctx);
}

int main() {
    for (int i = 0; i < NEQUATIONS; i++) g_y[i] = 0.0;
    use_k.assign(NREACTIONS, 0.0);
    use_kh.assign(NHEATPROCS + 1, 0.0);
    use_kc.assign(NCOOLPROCS + 1, 0.0);
    verif_shim.call_rhs = true;
    char *line  = NULL;
    size_t cap  = 0;
    while (getline(&line, &cap, stdin) > 0) {
        std::istringstream in(line);
        std::string cmd;
        if (!(in >> cmd)) continue;
        if (cmd == "info") {
            printf("{\"ev\":\"info\",\"NEQUATIONS\":%d,\"NSPECIES\":%d,\"NREACTIONS\":%d,\"NNZ\":%d,\"NELEMENTS\":%d,"
                   "\"NHEATPROCS\":%d,\"NCOOLPROCS\":%d,\"sizeof_data\":%zu}\n",
                   (int)NEQUATIONS, (int)NSPECIES, (int)NREACTIONS, (int)NNZ, (int)NELEMENTS, (int)NHEATPROCS,
                   (int)NCOOLPROCS, sizeof(NaunetData));
        } else if (cmd == "defaults") {
            NaunetData d;
            printf("{\"ev\":\"defaults\"");
#define VERIF_FIELD(f) printf(",\"" #f "\":"); pnum(d.f);
#include "verif_fields.def"
#undef VERIF_FIELD
            printf("}\n");
        } else if (cmd == "set") {
            std::string f; double v;
            in >> f >> v;
            bool ok = set_field(f, v);
            printf("{\"ev\":\"set\",\"field\":\"%s\",\"ok\":%s}\n", f.c_str(), ok ? "true" : "false");
        } else if (cmd == "y") {
            int n = 0; double v;
            while (n < NEQUATIONS && in >> v) g_y[n++] = v;
            printf("{\"ev\":\"y\",\"n\":%d}\n", n);
        } else if (cmd == "mode") {
            std::string m; in >> m;
            g_mode = m == "pass" ? MODE_PASS : m == "frozen" ? MODE_FROZEN : MODE_INJECT;
            printf("{\"ev\":\"mode\",\"mode\":%d}\n", g_mode);
        } else if (cmd == "use_k" || cmd == "use_kh" || cmd == "use_kc") {
            std::vector<double> &t = cmd == "use_k" ? use_k : cmd == "use_kh" ? use_kh : use_kc;
            size_t n = 0; double v;
            while (n < t.size() && in >> v) t[n++] = v;
            printf("{\"ev\":\"%s\",\"n\":%zu}\n", cmd.c_str(), n);
        } else if (cmd == "use_scalars") {
            in >> use_npar >> use_mu >> use_gamma;
            printf("{\"ev\":\"use_scalars\"}\n");
        } else if (cmd == "rates" || cmd == "rates_nan") {
            // the real EvalRates on an exactly sized heap buffer
            double *k = verif_guarded_alloc(NREACTIONS);
            double *y = (double *)malloc(sizeof(double) * NEQUATIONS);
            for (int i = 0; i < NREACTIONS; i++) k[i] = (cmd == "rates") ? 0.0 : sentinel();
            for (int i = 0; i < NEQUATIONS; i++) y[i] = g_y[i];
            int r = EvalRates(k, y, &g_data);
            printf("{\"ev\":\"%s\",\"ret\":%d,", cmd.c_str(), r);
            parr("k", k, NREACTIONS);
#if NHEATPROCS
            { double kh[NHEATPROCS] = {0.0}; EvalHeatingRates(kh, y, &g_data); printf(","); parr("kh", kh, NHEATPROCS); }
#endif
#if NCOOLPROCS
            { double kc[NCOOLPROCS] = {0.0}; EvalCoolingRates(kc, y, &g_data); printf(","); parr("kc", kc, NCOOLPROCS); }
#endif
            printf("}\n");
            verif_guarded_free(k, NREACTIONS); free(y);
        } else if (cmd == "fex") {
            double ydot[NEQUATIONS];
            long before = seam_calls;
            run_fex(g_y, ydot);
            printf("{\"ev\":\"fex\",\"mode\":%d,\"seam_calls\":%ld,", g_mode, seam_calls - before);
            parr("ydot", ydot, NEQUATIONS);
            const std::vector<double> &kk = g_mode == MODE_PASS ? seen_k : use_k;
            printf(","); parr("k", kk.data(), NREACTIONS);
#if NHEATPROCS
            printf(","); parr("kh", (g_mode == MODE_PASS ? seen_kh : use_kh).data(), NHEATPROCS);
#endif
#if NCOOLPROCS
            printf(","); parr("kc", (g_mode == MODE_PASS ? seen_kc : use_kc).data(), NCOOLPROCS);
#endif
#if (NHEATPROCS || NCOOLPROCS)
            printf(",\"npar\":"); pnum(g_mode == MODE_PASS ? seen_npar : use_npar);
            printf(",\"mu\":"); pnum(g_mode == MODE_PASS ? seen_mu : use_mu);
            printf(",\"gamma\":"); pnum(g_mode == MODE_PASS ? seen_gamma : use_gamma);
#endif
            printf("}\n");
        } else if (cmd == "freeze") {
            // evaluate once in passthrough at the current point, then pin everything
            double ydot[NEQUATIONS];
            g_mode = MODE_PASS;
            run_fex(g_y, ydot);
            use_k = seen_k;
            if (NHEATPROCS) use_kh = seen_kh;
            if (NCOOLPROCS) use_kc = seen_kc;
            use_npar = seen_npar; use_mu = seen_mu; use_gamma = seen_gamma;
            g_mode = MODE_FROZEN;
            printf("{\"ev\":\"freeze\","); parr("k", use_k.data(), NREACTIONS);
            printf(",\"npar\":"); pnum(use_npar); printf(",\"mu\":"); pnum(use_mu); printf(",\"gamma\":"); pnum(use_gamma);
            printf("}\n");
        } else if (cmd == "numjac") {
            // 4-point stencil on the compiled Fex, exact for polynomials of degree <= 4 in y_j
            std::vector<double> J((size_t)NEQUATIONS * NEQUATIONS, 0.0);
            double yy[NEQUATIONS], f1[NEQUATIONS], f2[NEQUATIONS], f3[NEQUATIONS], f4[NEQUATIONS];
            for (int j = 0; j < NEQUATIONS; j++) {
                double h = g_y[j] / 4.0;
                if (h == 0.0) h = 0.25;
                for (int i = 0; i < NEQUATIONS; i++) yy[i] = g_y[i];
                yy[j] = g_y[j] + h;      run_fex(yy, f1);
                yy[j] = g_y[j] - h;      run_fex(yy, f2);
                yy[j] = g_y[j] + 2 * h;  run_fex(yy, f3);
                yy[j] = g_y[j] - 2 * h;  run_fex(yy, f4);
                for (int i = 0; i < NEQUATIONS; i++)
                    J[(size_t)i * NEQUATIONS + j] = (8.0 * (f1[i] - f2[i]) - (f3[i] - f4[i])) / (12.0 * h);
            }
            printf("{\"ev\":\"numjac\",\"mode\":%d,", g_mode); parr("J", J.data(), (long)J.size()); printf("}\n");
        } else if (cmd == "jac") {
            SUNContext ctx;
            SUNContext_Create(NULL, &ctx);
            N_Vector u = N_VNew_Serial(NEQUATIONS, ctx);
            N_Vector fu = N_VNew_Serial(NEQUATIONS, ctx);
            for (int i = 0; i < NEQUATIONS; i++) N_VGetArrayPointer(u)[i] = g_y[i];
#ifdef VERIF_SPARSE
            SUNMatrix A = SUNSparseMatrix(NEQUATIONS, NEQUATIONS, NNZ, CSR_MAT, ctx);  // as Naunet::Init does
            for (long i = 0; i < NNZ; i++) { A->data[i] = sentinel(); A->indexvals[i] = -777; }
            for (long i = 0; i < NEQUATIONS + 1; i++) A->indexptrs[i] = -777;
#else
            SUNMatrix A = SUNDenseMatrix(NEQUATIONS, NEQUATIONS, ctx);
            for (long i = 0; i < (long)NEQUATIONS * NEQUATIONS; i++) A->data[i] = sentinel();
#endif
            int r = Jac(0.0, u, fu, A, &g_data, NULL, NULL, NULL);
            printf("{\"ev\":\"jac\",\"ret\":%d,\"mode\":%d,", r, g_mode);
            parr("k", (g_mode == MODE_PASS ? seen_k : use_k).data(), NREACTIONS); printf(",");
#ifdef VERIF_SPARSE
            printf("\"layout\":\"csr\","); parr_i("rowptrs", A->indexptrs, NEQUATIONS + 1);
            printf(","); parr_i("colvals", A->indexvals, NNZ);
            printf(","); parr("data", A->data, NNZ);
#else
            std::vector<double> J((size_t)NEQUATIONS * NEQUATIONS);
            for (int i = 0; i < NEQUATIONS; i++)
                for (int j = 0; j < NEQUATIONS; j++) J[(size_t)i * NEQUATIONS + j] = A->data[(size_t)j * NEQUATIONS + i];
            printf("\"layout\":\"dense\","); parr("J", J.data(), (long)J.size());
#endif
            printf("}\n");
            SUNMatDestroy(A); N_VDestroy(u); N_VDestroy(fu); SUNContext_Free(&ctx);
        } else if (cmd == "elem") {
            double *y = (double *)malloc(sizeof(double) * NEQUATIONS);
            for (int i = 0; i < NEQUATIONS; i++) y[i] = g_y[i];
            printf("{\"ev\":\"elem\",\"elem\":[");
            for (int e = 0; e < NELEMENTS; e++) { if (e) printf(","); pnum(GetElementAbund(y, e)); }
            printf("],\"hnuclei\":"); pnum(GetHNuclei(y));
            printf(",\"mantle\":"); pnum(GetMantleDens(y));
            printf(",\"numdens\":"); pnum(GetNumDens(y));
#if NSPECIES
            printf(",\"mu\":"); pnum(GetMu(y));
#endif
            printf(",\"gamma\":"); pnum(GetGamma(y));
            printf("}\n");
            free(y);
        } else if (cmd == "shield") {
            int specidx, method; double h2col, spcol, tgas;
            in >> specidx >> h2col >> spcol >> tgas >> method;
            printf("{\"ev\":\"shield\",\"value\":"); pnum(GetShieldingFactor(specidx, h2col, spcol, tgas, method)); printf("}\n");
        } else if (cmd == "gscat") {
            double av, wl; in >> av >> wl;
            printf("{\"ev\":\"gscat\",\"value\":"); pnum(GetGrainScattering(av, wl)); printf("}\n");
        } else if (cmd == "charwl") {
            double h2col, cocol; in >> h2col >> cocol;
            printf("{\"ev\":\"charwl\",\"value\":"); pnum(GetCharactWavelength(h2col, cocol)); printf("}\n");
        } else if (cmd == "mantle") {
            double *y = (double *)malloc(sizeof(double) * NEQUATIONS);
            for (int i = 0; i < NEQUATIONS; i++) y[i] = g_y[i];
            printf("{\"ev\":\"mantle\",\"mantle\":"); pnum(GetMantleDens(y)); printf("}\n");
            free(y);
        } else if (cmd == "consts") {
            printf("{\"ev\":\"consts\"");
#define VERIF_CONST(c) printf(",\"" #c "\":"); pnum((double)c);
#include "verif_consts.def"
#undef VERIF_CONST
            printf("}\n");
        } else if (cmd == "idx") {
            printf("{\"ev\":\"idx\"");
#define VERIF_IDX(m) printf(",\"" #m "\":%ld", (long)(m));
#include "verif_idx.def"
#undef VERIF_IDX
            printf("}\n");
        } else if (cmd == "renorm") {
#if defined(IDX_ELEM_H) && !defined(VERIF_NO_NAUNET)
            int opt; in >> opt;
            std::vector<double> ref; double v;
            while (in >> v) ref.push_back(v);
            size_t need = opt == 0 ? (size_t)NELEMENTS : (size_t)NEQUATIONS;
            ref.resize(need, 0.0);
            double *refp = (double *)malloc(sizeof(double) * need);   // exactly sized
            for (size_t i = 0; i < need; i++) refp[i] = ref[i];
            double *ab = (double *)malloc(sizeof(double) * NEQUATIONS);
            for (int i = 0; i < NEQUATIONS; i++) ab[i] = g_y[i];
            Naunet *n = new Naunet();
            int r0 = n->Init();
            int r1 = n->SetReferenceAbund(refp, opt);
            int r2 = n->Renorm(ab);
            // a second call on another vector with the SAME stored reference (no new SetReferenceAbund)
            double *ab2 = (double *)malloc(sizeof(double) * NEQUATIONS);
            for (int i = 0; i < NEQUATIONS; i++) ab2[i] = g_y[i] * (1.0 + 0.37 * (double)((i * 7) % 5));
            int r3 = n->Renorm(ab2);
            n->Finalize();
            delete n;
            printf("{\"ev\":\"renorm\",\"init\":%d,\"setref\":%d,\"ret\":%d,\"ret2\":%d,", r0, r1, r2, r3); parr("ab", ab, NEQUATIONS);
            printf(",\"elem\":[");
            for (int e = 0; e < NELEMENTS; e++) { if (e) printf(","); pnum(GetElementAbund(ab, e)); }
            printf("],\"hnuclei\":"); pnum(GetHNuclei(ab));
            printf(","); parr("ab2", ab2, NEQUATIONS);
            printf(",\"elem2\":[");
            for (int e = 0; e < NELEMENTS; e++) { if (e) printf(","); pnum(GetElementAbund(ab2, e)); }
            printf("],\"hnuclei2\":"); pnum(GetHNuclei(ab2));
            printf("}\n");
            free(ab); free(ab2); free(refp);
#else
            printf("{\"ev\":\"renorm\",\"unavailable\":true}\n");
#endif
        } else if (cmd == "script") {
            // script <n> flag frac flag frac ... | reinit flags...
            verif_shim.reset_script();
            int n; in >> n;
            for (int i = 0; i < n; i++) { VerifCVOutcome o; in >> o.flag >> o.frac; verif_shim.cvode_script.push_back(o); }
            int r;
            while (in >> r) verif_shim.reinit_script.push_back(r);
            printf("{\"ev\":\"script\",\"cvode\":%zu,\"reinit\":%zu}\n", verif_shim.cvode_script.size(), verif_shim.reinit_script.size());
#ifndef VERIF_NO_NAUNET
        } else if (cmd == "solve") {
            double dt; int verbose = 0; in >> dt; in >> verbose;
            double *ab = (double *)malloc(sizeof(double) * NEQUATIONS);
            for (int i = 0; i < NEQUATIONS; i++) ab[i] = g_y[i];
            remove("naunet_error_record.txt");
            Naunet *n = new Naunet();
            int r0 = n->Init();
            verif_shim.calls.clear(); verif_shim.cvode_pos = verif_shim.reinit_pos = 0;
            verif_shim.rhs_calls = verif_shim.jac_calls = 0;
            int r = n->Solve(ab, dt, &g_data);
            n->Finalize();
            delete n;
            printf("{\"ev\":\"solve\",\"init\":%d,\"ret\":%d,\"dt\":", r0, r); pnum(dt);
            printf(","); parr("ab", ab, NEQUATIONS);
            int ncv = 0, nre = 0, last_flag = 0, last_kind = -1; double last_tout = 0, last_tret = 0;
            for (size_t i = 0; i < verif_shim.calls.size(); i++) {
                const VerifCVCall &c = verif_shim.calls[i];
                if (c.kind == 0) { ncv++; last_flag = c.flag; last_tout = c.tout; last_tret = c.tret; }
                if (c.kind == 1) nre++;
                if (c.kind != 2) last_kind = c.kind;
            }
            printf(",\"cvode_calls\":%d,\"reinit_calls\":%d,\"last_kind\":%d,\"last_flag\":%d,\"last_tout\":", ncv, nre, last_kind, last_flag);
            pnum(last_tout); printf(",\"last_tret\":"); pnum(last_tret);
            printf(",\"script_left\":%zu", verif_shim.cvode_script.size() - verif_shim.cvode_pos);
            // error record: the logged initial state
            {
                FILE *f = fopen("naunet_error_record.txt", "r");
                std::vector<double> ylog; int unrec = 0; long bytes = 0;
                if (f) {
                    char buf[512];
                    while (fgets(buf, sizeof buf, f)) {
                        bytes += (long)strlen(buf);
                        int idx; double v;
                        if (sscanf(buf, "    y[%d] = %lf;", &idx, &v) == 2) ylog.push_back(v);
                        if (strstr(buf, "unrecoverable")) unrec = 1;
                    }
                    fclose(f);
                }
                printf(",\"errfile_bytes\":%ld,\"logged_unrecoverable\":%d,", bytes, unrec); parr("y_logged", ylog.data(), (long)ylog.size());
            }
            printf(",\"rhs_calls\":%ld,\"jac_calls\":%ld,\"live\":[%d,%d,%d,%d,%d]", verif_shim.rhs_calls,
                   verif_shim.jac_calls, verif_shim.live_vectors, verif_shim.live_matrices, verif_shim.live_solvers,
                   verif_shim.live_contexts, verif_shim.live_cvmem);
            if (verbose) {
                printf(",\"calls\":[");
                for (size_t i = 0; i < verif_shim.calls.size(); i++) {
                    const VerifCVCall &c = verif_shim.calls[i];
                    printf("%s[%d,", i ? "," : "", c.kind); pnum(c.tout); printf(","); pnum(c.tn_before); printf(","); pnum(c.tret);
                    printf(",%d]", c.flag);
                }
                printf("]");
            }
            printf("}\n");
            free(ab);
#endif
        } else if (cmd == "quit") {
            break;
        } else {
            printf("{\"ev\":\"unknown\",\"cmd\":\"%s\"}\n", cmd.c_str());
        }
        fflush(stdout);
    }
    free(line);
    return 0;
}
