// Generic command-driven driver for a naunet project rendered with solver=odeint.
// No seams: the generated naunet_ode.cpp defines EvalRates, Fex and Jac in one unit.
#include <math.h>
#include <stdio.h>
#include <stdlib.h>

#include <sstream>
#include <string>
#include <vector>
#include "verif_guard.h"

#ifndef VERIF_NO_NAUNET
#include "naunet.h"
#endif
#include "naunet_constants.h"
#include "naunet_macros.h"
#include "naunet_ode.h"
#include "naunet_physics.h"
#ifndef VERIF_NO_NAUNET
#include "naunet_renorm.h"
#endif

using boost::numeric::odeint::verif_odeint;

static void pnum(double v) {
    if (v != v) printf("NaN");
    else if (isinf(v)) printf(v > 0 ? "Infinity" : "-Infinity");
    else printf("%.17g", v);
}
static void parr(const char *name, const double *v, long n) {
    printf("\"%s\":[", name);
    for (long i = 0; i < n; i++) { if (i) printf(","); pnum(v[i]); }
    printf("]");
}
static double sentinel() { return nan("0x5e7"); }

static NaunetData g_data;
static double g_y[NEQUATIONS];

static bool set_field(const std::string &name, double v) {
#define VERIF_FIELD(f) if (name == #f) { g_data.f = v; return true; }
#include "verif_fields.def"
#undef VERIF_FIELD
    return false;
}

static void run_fex(const double *y, double *ydot) {
    vector_type a(NEQUATIONS), d(NEQUATIONS);
    for (int i = 0; i < NEQUATIONS; i++) { a[i] = y[i]; d[i] = sentinel(); }
    Fex f(&g_data);
    Fex g(f);   // Odeint copies the system functors; exercise the copy constructor / assignment
    g = f;
    g(a, d, 0.0);
    for (int i = 0; i < NEQUATIONS; i++) ydot[i] = d[i];
}

int main() {
    for (int i = 0; i < NEQUATIONS; i++) g_y[i] = 0.0;
    char *line = NULL; size_t cap = 0;
    while (getline(&line, &cap, stdin) > 0) {
        std::istringstream in(line);
        std::string cmd;
        if (!(in >> cmd)) continue;
        if (cmd == "info") {
            printf("{\"ev\":\"info\",\"NEQUATIONS\":%d,\"NSPECIES\":%d,\"NREACTIONS\":%d,\"NNZ\":%d,\"NELEMENTS\":%d,"
                   "\"NHEATPROCS\":%d,\"NCOOLPROCS\":%d}\n",
                   (int)NEQUATIONS, (int)NSPECIES, (int)NREACTIONS, (int)NNZ, (int)NELEMENTS, (int)NHEATPROCS, (int)NCOOLPROCS);
        } else if (cmd == "defaults") {
            NaunetData d;
            printf("{\"ev\":\"defaults\"");
#define VERIF_FIELD(f) printf(",\"" #f "\":"); pnum(d.f);
#include "verif_fields.def"
#undef VERIF_FIELD
            printf("}\n");
        } else if (cmd == "set") {
            std::string f; double v; in >> f >> v;
            bool ok = set_field(f, v);
            printf("{\"ev\":\"set\",\"field\":\"%s\",\"ok\":%s}\n", f.c_str(), ok ? "true" : "false");
        } else if (cmd == "y") {
            int n = 0; double v;
            while (n < NEQUATIONS && in >> v) g_y[n++] = v;
            printf("{\"ev\":\"y\",\"n\":%d}\n", n);
        } else if (cmd == "rates" || cmd == "rates_nan") {
            double *k = verif_guarded_alloc(NREACTIONS);
            double *y = (double *)malloc(sizeof(double) * NEQUATIONS);
            for (int i = 0; i < NREACTIONS; i++) k[i] = (cmd == "rates") ? 0.0 : sentinel();
            for (int i = 0; i < NEQUATIONS; i++) y[i] = g_y[i];
            int r = EvalRates(k, y, &g_data);
            printf("{\"ev\":\"%s\",\"ret\":%d,", cmd.c_str(), r); parr("k", k, NREACTIONS);
#if NCOOLPROCS
            { double kc[NCOOLPROCS] = {0.0}; EvalCoolingRates(kc, y, &g_data); printf(","); parr("kc", kc, NCOOLPROCS); }
#endif
            printf("}\n");
            verif_guarded_free(k, NREACTIONS); free(y);
        } else if (cmd == "fex") {
            double ydot[NEQUATIONS];
            run_fex(g_y, ydot);
            printf("{\"ev\":\"fex\",\"mode\":0,"); parr("ydot", ydot, NEQUATIONS); printf("}\n");
        } else if (cmd == "numjac") {
            std::vector<double> J((size_t)NEQUATIONS * NEQUATIONS, 0.0);
            double yy[NEQUATIONS], f1[NEQUATIONS], f2[NEQUATIONS], f3[NEQUATIONS], f4[NEQUATIONS];
            for (int j = 0; j < NEQUATIONS; j++) {
                double h = g_y[j] / 4.0;
                if (h == 0.0) h = 0.25;
                for (int i = 0; i < NEQUATIONS; i++) yy[i] = g_y[i];
                yy[j] = g_y[j] + h;      run_fex(yy, f1);
                yy[j] = g_y[j] - h;      run_fex(yy, f2);
                yy[j] = g_y[j] + 2 * h;  run_fex(yy, f3);
                yy[j] = g_y[j] - 2 * h;  run_fex(yy, f4);
                for (int i = 0; i < NEQUATIONS; i++)
                    J[(size_t)i * NEQUATIONS + j] = (8.0 * (f1[i] - f2[i]) - (f3[i] - f4[i])) / (12.0 * h);
            }
            printf("{\"ev\":\"numjac\",\"mode\":0,"); parr("J", J.data(), (long)J.size()); printf("}\n");
        } else if (cmd == "jac") {
            vector_type a(NEQUATIONS), dfdt(NEQUATIONS);
            for (int i = 0; i < NEQUATIONS; i++) { a[i] = g_y[i]; dfdt[i] = sentinel(); }
            matrix_type J(NEQUATIONS, NEQUATIONS);
            for (int i = 0; i < NEQUATIONS; i++) for (int j = 0; j < NEQUATIONS; j++) J(i, j) = sentinel();
            Jac jf(&g_data);
            Jac jg(jf);
            jg = jf;
            jg(a, J, 0.0, dfdt);
            std::vector<double> out((size_t)NEQUATIONS * NEQUATIONS);
            for (int i = 0; i < NEQUATIONS; i++) for (int j = 0; j < NEQUATIONS; j++) out[(size_t)i * NEQUATIONS + j] = J(i, j);
            std::vector<double> df(NEQUATIONS);
            for (int i = 0; i < NEQUATIONS; i++) df[i] = dfdt[i];
            printf("{\"ev\":\"jac\",\"layout\":\"ublas\","); parr("J", out.data(), (long)out.size());
            printf(","); parr("dfdt", df.data(), NEQUATIONS); printf("}\n");
        } else if (cmd == "elem") {
            double *y = (double *)malloc(sizeof(double) * NEQUATIONS);
            for (int i = 0; i < NEQUATIONS; i++) y[i] = g_y[i];
            printf("{\"ev\":\"elem\",\"elem\":[");
            for (int e = 0; e < NELEMENTS; e++) { if (e) printf(","); pnum(GetElementAbund(y, e)); }
            printf("],\"hnuclei\":"); pnum(GetHNuclei(y));
            printf(",\"mantle\":"); pnum(GetMantleDens(y));
            printf(",\"numdens\":"); pnum(GetNumDens(y));
            printf("}\n");
            free(y);
        } else if (cmd == "consts") {
            printf("{\"ev\":\"consts\"");
#define VERIF_CONST(c) printf(",\"" #c "\":"); pnum((double)c);
#include "verif_consts.def"
#undef VERIF_CONST
            printf("}\n");
        } else if (cmd == "idx") {
            printf("{\"ev\":\"idx\"");
#define VERIF_IDX(m) printf(",\"" #m "\":%ld", (long)(m));
#include "verif_idx.def"
#undef VERIF_IDX
            printf("}\n");
        } else if (cmd == "renorm") {
#if defined(IDX_ELEM_H) && !defined(VERIF_NO_NAUNET)
            int opt; in >> opt;
            std::vector<double> ref; double v;
            while (in >> v) ref.push_back(v);
            size_t need = opt == 0 ? (size_t)NELEMENTS : (size_t)NEQUATIONS;
            ref.resize(need, 0.0);
            double *refp = (double *)malloc(sizeof(double) * need);
            for (size_t i = 0; i < need; i++) refp[i] = ref[i];
            double *ab = (double *)malloc(sizeof(double) * NEQUATIONS);
            for (int i = 0; i < NEQUATIONS; i++) ab[i] = g_y[i];
            Naunet *n = new Naunet();
            int r0 = n->Init();
            int r1 = n->SetReferenceAbund(refp, opt);
            int r2 = n->Renorm(ab);
            // a second call on another vector with the SAME stored reference (no new SetReferenceAbund)
            double *ab2 = (double *)malloc(sizeof(double) * NEQUATIONS);
            for (int i = 0; i < NEQUATIONS; i++) ab2[i] = g_y[i] * (1.0 + 0.37 * (double)((i * 7) % 5));
            int r3 = n->Renorm(ab2);
            n->Finalize();
            delete n;
            printf("{\"ev\":\"renorm\",\"init\":%d,\"setref\":%d,\"ret\":%d,\"ret2\":%d,", r0, r1, r2, r3); parr("ab", ab, NEQUATIONS);
            printf(",\"elem\":[");
            for (int e = 0; e < NELEMENTS; e++) { if (e) printf(","); pnum(GetElementAbund(ab, e)); }
            printf("],\"hnuclei\":"); pnum(GetHNuclei(ab));
            printf(","); parr("ab2", ab2, NEQUATIONS);
            printf(",\"elem2\":[");
            for (int e = 0; e < NELEMENTS; e++) { if (e) printf(","); pnum(GetElementAbund(ab2, e)); }
            printf("],\"hnuclei2\":"); pnum(GetHNuclei(ab2));
            printf("}\n");
            free(ab); free(ab2); free(refp);
#else
            printf("{\"ev\":\"renorm\",\"unavailable\":true}\n");
#endif
        } else if (cmd == "steps") {
            long n, th = -1, stall = 0; in >> n; in >> th; in >> stall;
            verif_odeint.nsteps = n; verif_odeint.throw_at = th; verif_odeint.stall = stall;
            printf("{\"ev\":\"steps\",\"n\":%ld,\"throw_at\":%ld}\n", n, th);
#ifndef VERIF_NO_NAUNET
        } else if (cmd == "solve") {
            double dt; int mxsteps = 500; in >> dt; in >> mxsteps;
            double *ab = (double *)malloc(sizeof(double) * NEQUATIONS);
            for (int i = 0; i < NEQUATIONS; i++) ab[i] = g_y[i];
            verif_odeint.observer_calls = verif_odeint.fex_calls = verif_odeint.jac_calls = 0;
            verif_odeint.observed_t.clear();
            Naunet *n = new Naunet();
            int r0 = n->Init(1, 1e-20, 1e-5, mxsteps);
            int r = n->Solve(ab, dt, &g_data);
            n->Finalize();
            delete n;
            printf("{\"ev\":\"solve\",\"init\":%d,\"ret\":%d,\"dt\":", r0, r); pnum(dt);
            printf(",\"mxsteps\":%d,\"nsteps\":%ld,\"throw_at\":%ld,\"observer_calls\":%ld,\"fex_calls\":%ld,\"jac_calls\":%ld,",
                   mxsteps, verif_odeint.nsteps, verif_odeint.throw_at, verif_odeint.observer_calls, verif_odeint.fex_calls,
                   verif_odeint.jac_calls);
            parr("ab", ab, NEQUATIONS); printf("}\n");
            free(ab);
#endif
        } else if (cmd == "quit") {
            break;
        } else {
            printf("{\"ev\":\"unknown\",\"cmd\":\"%s\"}\n", cmd.c_str());
        }
        fflush(stdout);
    }
    free(line);
    return 0;
}
