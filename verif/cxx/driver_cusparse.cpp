// Driver for the CPU emulation of a naunet project rendered with method=cusparse.
// Runs the generated host functions Fex/Jac/InitJac, which launch FexKernel/JacKernel through
// the emulated launch loop, on `nsystem` systems with exactly sized buffers.
#include <cuda_emul.h>
#include <math.h>
#include <nvector/nvector_cuda.h>
#include <stdio.h>
#include <stdlib.h>
#include <sunmatrix/sunmatrix_cusparse.h>

#include <sstream>
#include <string>
#include <vector>
#include "verif_guard.h"

#include "naunet_constants.h"
#include "naunet_data.h"
#include "naunet_macros.h"
#include "naunet_ode.h"
#include "naunet_physics.h"
#ifdef VERIF_WITH_NAUNET
#include <cvode/cvode.h>
#include <string.h>
#include "naunet.h"
#include "verif_shim.h"
#endif

enum { MODE_PASS = 0, MODE_FROZEN = 1, MODE_INJECT = 2 };
static int g_mode = MODE_PASS;
static std::vector<double> seen_k, use_k, seen_kc, use_kc;
static double seen_npar = 0, seen_mu = 0, seen_gamma = 0, use_npar = 1, use_mu = 1, use_gamma = 5.0 / 3.0;
static long seam_calls = 0;

int verif_EvalRates(realtype *k, realtype *y, NaunetData *d) {
    seam_calls++;
    int r = 0;
    if (g_mode == MODE_PASS) {
        double *gk = verif_guarded_alloc(NREACTIONS);
        for (int i = 0; i < NREACTIONS; i++) gk[i] = k[i];
        r = EvalRates(gk, y, d);
        for (int i = 0; i < NREACTIONS; i++) k[i] = gk[i];
        verif_guarded_free(gk, NREACTIONS);
        seen_k.insert(seen_k.end(), k, k + NREACTIONS);   // one block per system, in launch order
    } else {
        for (int i = 0; i < NREACTIONS; i++) k[i] = use_k[i];
    }
    return r;
}
#if NHEATPROCS
int verif_EvalHeatingRates(realtype *kh, realtype *y, NaunetData *d) { return EvalHeatingRates(kh, y, d); }
#endif
#if NCOOLPROCS
int verif_EvalCoolingRates(realtype *kc, realtype *y, NaunetData *d) {
    int r = 0;
    if (g_mode == MODE_PASS) { r = EvalCoolingRates(kc, y, d); seen_kc.insert(seen_kc.end(), kc, kc + NCOOLPROCS); }
    else for (int i = 0; i < NCOOLPROCS; i++) kc[i] = use_kc[i];
    return r;
}
#endif
double verif_GetNumDens(double *y) { if (g_mode == MODE_PASS) return seen_npar = GetNumDens(y); return use_npar; }
double verif_GetMu(double *y) { if (g_mode == MODE_PASS) return seen_mu = GetMu(y); return use_mu; }
double verif_GetGamma(double *y) { if (g_mode == MODE_PASS) return seen_gamma = GetGamma(y); return use_gamma; }

static void pnum(double v) {
    if (v != v) printf("NaN");
    else if (isinf(v)) printf(v > 0 ? "Infinity" : "-Infinity");
    else printf("%.17g", v);
}
static void parr(const char *name, const double *v, long n) {
    printf("\"%s\":[", name);
    for (long i = 0; i < n; i++) { if (i) printf(","); pnum(v[i]); }
    printf("]");
}
static double sentinel() { return nan("0x5e7"); }

static int g_nsys = 1, g_block = 2;
static std::vector<NaunetData> g_data(1);
static std::vector<double> g_y(NEQUATIONS, 0.0);

static bool set_field(NaunetData &d, const std::string &name, double v) {
#define VERIF_FIELD(f) if (name == #f) { d.f = v; return true; }
#include "verif_fields.def"
#undef VERIF_FIELD
    return false;
}

int main() {
    use_k.assign(NREACTIONS, 0.0);
    use_kc.assign(NCOOLPROCS + 1, 0.0);
    char *line = NULL; size_t cap = 0;
    while (getline(&line, &cap, stdin) > 0) {
        std::istringstream in(line);
        std::string cmd;
        if (!(in >> cmd)) continue;
        if (cmd == "info") {
            printf("{\"ev\":\"info\",\"NEQUATIONS\":%d,\"NSPECIES\":%d,\"NREACTIONS\":%d,\"NNZ\":%d,\"NELEMENTS\":%d,\"nsystem\":%d}\n",
                   (int)NEQUATIONS, (int)NSPECIES, (int)NREACTIONS, (int)NNZ, (int)NELEMENTS, g_nsys);
        } else if (cmd == "nsys") {
            in >> g_nsys; in >> g_block;
            if (g_block < 1) g_block = 1;
            g_data.assign(g_nsys, NaunetData());
            g_y.assign((size_t)g_nsys * NEQUATIONS, 0.0);
            printf("{\"ev\":\"nsys\",\"n\":%d,\"block\":%d}\n", g_nsys, g_block);
        } else if (cmd == "set") {           // set <sys|-1> field value
            int s; std::string f; double v; in >> s >> f >> v;
            bool ok = true;
            for (int i = 0; i < g_nsys; i++) if (s < 0 || s == i) ok = set_field(g_data[i], f, v) && ok;
            printf("{\"ev\":\"set\",\"ok\":%s}\n", ok ? "true" : "false");
        } else if (cmd == "y") {
            size_t n = 0; double v;
            while (n < g_y.size() && in >> v) g_y[n++] = v;
            printf("{\"ev\":\"y\",\"n\":%zu}\n", n);
        } else if (cmd == "mode") {
            std::string m; in >> m;
            g_mode = m == "pass" ? MODE_PASS : m == "frozen" ? MODE_FROZEN : MODE_INJECT;
            printf("{\"ev\":\"mode\",\"mode\":%d}\n", g_mode);
        } else if (cmd == "use_k") {
            size_t n = 0; double v;
            while (n < use_k.size() && in >> v) use_k[n++] = v;
            printf("{\"ev\":\"use_k\",\"n\":%zu}\n", n);
        } else if (cmd == "use_kc") {
            size_t n = 0; double v;
            while (n < use_kc.size() && in >> v) use_kc[n++] = v;
            printf("{\"ev\":\"use_kc\",\"n\":%zu}\n", n);
        } else if (cmd == "use_scalars") {
            in >> use_npar >> use_mu >> use_gamma;
            printf("{\"ev\":\"use_scalars\"}\n");
        } else if (cmd == "fex" || cmd == "jac") {
            SUNContext ctx; SUNContext_Create(NULL, &ctx);
            long n = (long)g_nsys * NEQUATIONS;
            N_Vector u = N_VNew_Cuda(n, ctx), ud = N_VNew_Cuda(n, ctx);
            SUNCudaThreadDirectExecPolicy pol(g_block, 0);
            N_VSetKernelExecPolicy_Cuda(u, &pol, &pol);
            N_VSetKernelExecPolicy_Cuda(ud, &pol, &pol);
            for (long i = 0; i < n; i++) { u->data[i] = g_y[i]; ud->data[i] = sentinel(); }
            NaunetData *hd = (NaunetData *)malloc(sizeof(NaunetData) * g_nsys);   // exactly nsystem structs
            for (int i = 0; i < g_nsys; i++) hd[i] = g_data[i];
            seen_k.clear(); seen_kc.clear();
            long threads0 = verif_kernel_threads, seam0 = seam_calls;
            if (cmd == "fex") {
                int r = Fex(0.0, u, ud, hd);
                printf("{\"ev\":\"fex\",\"ret\":%d,\"mode\":%d,\"threads\":%ld,\"seam_calls\":%ld,", r, g_mode,
                       verif_kernel_threads - threads0, seam_calls - seam0);
                parr("ydot", ud->data, n);
                printf(","); parr("k", g_mode == MODE_PASS ? seen_k.data() : use_k.data(), g_mode == MODE_PASS ? (long)seen_k.size() : NREACTIONS);
#if NCOOLPROCS
                printf(","); parr("kc", g_mode == MODE_PASS ? seen_kc.data() : use_kc.data(), g_mode == MODE_PASS ? (long)seen_kc.size() : NCOOLPROCS);
                printf(",\"npar\":"); pnum(g_mode == MODE_PASS ? seen_npar : use_npar);
                printf(",\"mu\":"); pnum(g_mode == MODE_PASS ? seen_mu : use_mu);
                printf(",\"gamma\":"); pnum(g_mode == MODE_PASS ? seen_gamma : use_gamma);
#endif
                printf("}\n");
            } else {
                SUNMatrix A = SUNMatrix_cuSparse_NewBlockCSR(g_nsys, NEQUATIONS, NEQUATIONS, NNZ, NULL, ctx);  // as Naunet::Init
                int r0 = InitJac(A);
                for (long i = 0; i < (long)NNZ * g_nsys; i++) A->data[i] = sentinel();
                int r = Jac(0.0, u, ud, A, hd, NULL, NULL, NULL);
                printf("{\"ev\":\"jac\",\"layout\":\"blockcsr\",\"initjac\":%d,\"ret\":%d,\"mode\":%d,\"threads\":%ld,\"rowptrs\":[", r0, r,
                       g_mode, verif_kernel_threads - threads0);
                for (int i = 0; i < NEQUATIONS + 1; i++) printf("%s%d", i ? "," : "", A->dev_rowptrs[i]);
                printf("],\"colvals\":[");
                for (int i = 0; i < NNZ; i++) printf("%s%d", i ? "," : "", A->dev_colvals[i]);
                printf("],"); parr("data", A->data, (long)NNZ * g_nsys); printf("}\n");
                free(A->data); free(A->dev_rowptrs); free(A->dev_colvals); free(A);
            }
            free(hd);
            N_VDestroy_Cuda(u); N_VDestroy_Cuda(ud);
            SUNContext_Free(&ctx);
#ifdef VERIF_WITH_NAUNET
        } else if (cmd == "script") {
            // script <n> flag frac flag frac ...   (consumed by successive CVode calls of the mock integrator)
            int n; in >> n;
            verif_shim.reset_script();
            for (int i = 0; i < n; i++) { VerifCVOutcome o; in >> o.flag >> o.frac; verif_shim.cvode_script.push_back(o); }
            printf("{\"ev\":\"script\",\"cvode\":%zu}\n", verif_shim.cvode_script.size());
        } else if (cmd == "solve") {
            // the real generated Naunet::Init / Solve / Finalize of the cusparse method on g_nsys systems
            double dt; in >> dt;
            long n = (long)g_nsys * NEQUATIONS;
            double *ab = (double *)malloc(sizeof(double) * n);                 // exactly nsystem * NEQUATIONS
            NaunetData *hd = (NaunetData *)malloc(sizeof(NaunetData) * g_nsys);
            for (long i = 0; i < n; i++) ab[i] = g_y[i];
            for (int i = 0; i < g_nsys; i++) hd[i] = g_data[i];
            remove("naunet_error_record.txt");
            Naunet *nn = new Naunet();
            int r0 = nn->Init(g_nsys, 1e-20, 1e-5, 500);
            verif_shim.calls.clear(); verif_shim.cvode_pos = verif_shim.reinit_pos = 0;
            verif_shim.rhs_calls = verif_shim.jac_calls = 0;
            int r = nn->Solve(ab, dt, hd);
            nn->Finalize();
            delete nn;
            printf("{\"ev\":\"solve\",\"init\":%d,\"ret\":%d,\"nsystem\":%d,\"dt\":", r0, r, g_nsys); pnum(dt);
            printf(","); parr("ab", ab, n);
            int ncv = 0, last_flag = 0, worst = 0;
            for (size_t i = 0; i < verif_shim.calls.size(); i++) {
                const VerifCVCall &c = verif_shim.calls[i];
                if (c.kind == 0) { ncv++; last_flag = c.flag; if (c.flag < worst) worst = c.flag; }
            }
            printf(",\"cvode_calls\":%d,\"last_flag\":%d,\"worst_flag\":%d", ncv, last_flag, worst);
            {
                FILE *f = fopen("naunet_error_record.txt", "r");
                std::vector<double> ylog; int unrec = 0; long bytes = 0;
                if (f) {
                    char buf[512];
                    while (fgets(buf, sizeof buf, f)) {
                        bytes += (long)strlen(buf);
                        int idx; double v;
                        if (sscanf(buf, "    y[%d] = %lf;", &idx, &v) == 2) ylog.push_back(v);
                        if (strstr(buf, "unrecoverable")) unrec = 1;
                    }
                    fclose(f);
                }
                printf(",\"errfile_bytes\":%ld,\"logged_unrecoverable\":%d,", bytes, unrec); parr("y_logged", ylog.data(), (long)ylog.size());
            }
            printf(",\"rhs_calls\":%ld,\"jac_calls\":%ld,\"live\":[%d,%d,%d,%d,%d,%d,%d,%d]}\n", verif_shim.rhs_calls, verif_shim.jac_calls,
                   verif_shim.live_vectors, verif_shim.live_matrices, verif_shim.live_solvers, verif_shim.live_contexts, verif_shim.live_cvmem,
                   verif_live_streams, verif_live_handles, verif_live_hostbufs);
            free(ab); free(hd);
#endif
        } else if (cmd == "rates") {
            printf("{\"ev\":\"rates\",\"k\":[");
            for (int s = 0; s < g_nsys; s++) {
                double *k = verif_guarded_alloc(NREACTIONS);
                for (int i = 0; i < NREACTIONS; i++) k[i] = 0.0;
                EvalRates(k, &g_y[(size_t)s * NEQUATIONS], &g_data[s]);
                for (int i = 0; i < NREACTIONS; i++) { if (s || i) printf(","); pnum(k[i]); }
                verif_guarded_free(k, NREACTIONS);
            }
            printf("]}\n");
        } else if (cmd == "idx") {
            printf("{\"ev\":\"idx\"");
#define VERIF_IDX(m) printf(",\"" #m "\":%ld", (long)(m));
#include "verif_idx.def"
#undef VERIF_IDX
            printf("}\n");
        } else if (cmd == "quit") {
            break;
        } else {
            printf("{\"ev\":\"unknown\",\"cmd\":\"%s\"}\n", cmd.c_str());
        }
        fflush(stdout);
    }
    free(line);
    return 0;
}
