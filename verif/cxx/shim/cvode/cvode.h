// verif shim of <cvode/cvode.h>: a *scripted mock integrator* (see shim_runtime.cpp)
#ifndef VERIF_CVODE_H
#define VERIF_CVODE_H
#include <stdio.h>
#include <sundials/sundials_linearsolver.h>
#include <sundials/sundials_matrix.h>
#include <sundials/sundials_nvector.h>
#include <sundials/sundials_types.h>
#define CV_ADAMS 1
#define CV_BDF 2
#define CV_NORMAL 1
#define CV_ONE_STEP 2
#define CV_SUCCESS 0
#define CV_TSTOP_RETURN 1
#define CV_ROOT_RETURN 2
#define CV_WARNING 99
#define CV_TOO_MUCH_WORK -1
#define CV_TOO_MUCH_ACC -2
#define CV_ERR_FAILURE -3
#define CV_CONV_FAILURE -4
#define CV_LINIT_FAIL -5
#define CV_LSETUP_FAIL -6
#define CV_LSOLVE_FAIL -7
#define CV_RHSFUNC_FAIL -8
#define CV_MEM_NULL -21
#define CV_ILL_INPUT -22
#define CV_TOO_CLOSE -27
typedef int (*CVRhsFn)(realtype t, N_Vector y, N_Vector ydot, void *user_data);
typedef int (*CVLsJacFn)(realtype t, N_Vector y, N_Vector fy, SUNMatrix Jac, void *user_data,
                         N_Vector tmp1, N_Vector tmp2, N_Vector tmp3);
void *CVodeCreate(int lmm, SUNContext sunctx);
int CVodeSetErrFile(void *cvode_mem, FILE *errfp);
int CVodeSetMaxNumSteps(void *cvode_mem, long int mxsteps);
int CVodeInit(void *cvode_mem, CVRhsFn f, realtype t0, N_Vector y0);
int CVodeReInit(void *cvode_mem, realtype t0, N_Vector y0);
int CVodeSStolerances(void *cvode_mem, realtype reltol, realtype abstol);
int CVodeSetLinearSolver(void *cvode_mem, SUNLinearSolver LS, SUNMatrix A);
int CVodeSetJacFn(void *cvode_mem, CVLsJacFn jac);
int CVodeSetUserData(void *cvode_mem, void *user_data);
int CVode(void *cvode_mem, realtype tout, N_Vector yout, realtype *tret, int itask);
void CVodeFree(void **cvode_mem);
int CVodeGetNumSteps(void *cvode_mem, long int *n);
int CVodeGetNumRhsEvals(void *cvode_mem, long int *n);
int CVodeGetNumLinSolvSetups(void *cvode_mem, long int *n);
int CVodeGetNumErrTestFails(void *cvode_mem, long int *n);
int CVodeGetNumNonlinSolvIters(void *cvode_mem, long int *n);
int CVodeGetNumNonlinSolvConvFails(void *cvode_mem, long int *n);
int CVodeGetNumJacEvals(void *cvode_mem, long int *n);
int CVodeGetNumGEvals(void *cvode_mem, long int *n);
int CVodeGetCurrentTime(void *cvode_mem, realtype *t);
#endif
