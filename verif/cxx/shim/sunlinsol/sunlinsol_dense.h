#ifndef VERIF_SUNLINSOL_DENSE_H
#define VERIF_SUNLINSOL_DENSE_H
#include <sundials/sundials_linearsolver.h>
#include <sunmatrix/sunmatrix_dense.h>
SUNLinearSolver SUNLinSol_Dense(N_Vector y, SUNMatrix A, SUNContext sunctx);
#endif
