#ifndef VERIF_SUNLINSOL_KLU_H
#define VERIF_SUNLINSOL_KLU_H
#include <sundials/sundials_linearsolver.h>
#include <sunmatrix/sunmatrix_sparse.h>
SUNLinearSolver SUNLinSol_KLU(N_Vector y, SUNMatrix A, SUNContext sunctx);
#endif
