// verif shim of <sunlinsol/sunlinsol_cusolversp_batchqr.h> (CPU emulation: the solver object only, nothing is solved -
// the scripted mock CVODE never calls the linear solver)
#ifndef VERIF_SUNLINSOL_CUSOLVERSP_BATCHQR_H
#define VERIF_SUNLINSOL_CUSOLVERSP_BATCHQR_H
#include <cuda_emul.h>
#include <sundials/sundials_linearsolver.h>
#include <sunmatrix/sunmatrix_cusparse.h>
typedef void *cusolverSpHandle_t;
int cusolverSpCreate(cusolverSpHandle_t *h);
int cusolverSpDestroy(cusolverSpHandle_t h);
int cusolverSpSetStream(cusolverSpHandle_t h, cudaStream_t s);
SUNLinearSolver SUNLinSol_cuSolverSp_batchQR(N_Vector y, SUNMatrix A, cusolverSpHandle_t cusol_handle, SUNContext sunctx);
void SUNLinSol_cuSolverSp_batchQR_GetDeviceSpace(SUNLinearSolver S, size_t *cuSolverInternal, size_t *cuSolverWorkspace);
#endif
