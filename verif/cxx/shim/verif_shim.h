// Harness-side interface of the SUNDIALS shim: scripted mock integrator + call log.
// Only drivers include this; generated code never sees it.
#ifndef VERIF_SHIM_H
#define VERIF_SHIM_H
#include <vector>

struct VerifCVOutcome {
    int flag;     // value CVode()/CVodeReInit() returns
    double frac;  // fraction of (tout - tn) integrated before returning (CVode only)
};

struct VerifCVCall {
    int kind;  // 0 = CVode, 1 = CVodeReInit, 2 = CVodeInit
    double tout, tn_before, tret;
    int flag;
};

struct VerifShimState {
    std::vector<VerifCVOutcome> cvode_script;   // consumed by successive CVode calls
    std::vector<int> reinit_script;             // consumed by successive CVodeReInit calls
    size_t cvode_pos, reinit_pos;
    std::vector<VerifCVCall> calls;
    bool call_rhs;      // call the registered Fex/Jac once per CVode call
    long rhs_calls, jac_calls;
    int live_vectors, live_matrices, live_solvers, live_contexts, live_cvmem;
    void reset_script() {
        cvode_script.clear(); reinit_script.clear(); cvode_pos = reinit_pos = 0; calls.clear();
        rhs_calls = jac_calls = 0;
    }
};
extern VerifShimState verif_shim;
#endif
