// Rate buffers with a poisoned tail: a write to k[i] with i far beyond NREACTIONS (e.g. a subscript taken from a
// file index) lands in memory AddressSanitizer has been told is off limits, however far it is from the red zone.
// One buffer per size is kept for the life of the process (allocating and poisoning 8 MiB per call would dominate the
// fault-script runs).  Without ASan the tail holds a sentinel pattern that is checked when the buffer is handed back.
#ifndef VERIF_GUARD_H
#define VERIF_GUARD_H
#include <cstdio>
#include <cstdlib>
#include <cstring>
#if defined(__has_feature)
#if __has_feature(address_sanitizer)
#include <sanitizer/asan_interface.h>
#define VERIF_HAVE_ASAN 1
#endif
#endif
#ifndef VERIF_GUARD_DOUBLES
#define VERIF_GUARD_DOUBLES (1u << 20)
#endif

static double *verif_guard_buf = NULL;
static size_t verif_guard_n    = 0;

static inline double *verif_guarded_alloc(size_t n) {
    if (verif_guard_buf && verif_guard_n == n) return verif_guard_buf;
    if (verif_guard_buf) {
#ifdef VERIF_HAVE_ASAN
        ASAN_UNPOISON_MEMORY_REGION(verif_guard_buf + verif_guard_n, sizeof(double) * VERIF_GUARD_DOUBLES);
#endif
        free(verif_guard_buf);
    }
    double *p = (double *)malloc(sizeof(double) * (n + VERIF_GUARD_DOUBLES));
    unsigned long long pat = 0x7ff8dead0000beefULL;
    for (size_t i = 0; i < VERIF_GUARD_DOUBLES; i++) memcpy(&p[n + i], &pat, 8);
#ifdef VERIF_HAVE_ASAN
    ASAN_POISON_MEMORY_REGION(p + n, sizeof(double) * VERIF_GUARD_DOUBLES);
#endif
    verif_guard_buf = p;
    verif_guard_n   = n;
    return p;
}
// hands the buffer back (it stays allocated); without ASan the tail pattern is verified here
static inline long verif_guarded_free(double *p, size_t n) {
    (void)p; (void)n;
#ifndef VERIF_HAVE_ASAN
    long bad = 0;
    unsigned long long pat = 0x7ff8dead0000beefULL, v;
    for (size_t i = 0; i < VERIF_GUARD_DOUBLES; i++) { memcpy(&v, &p[n + i], 8); if (v != pat) bad++; }
    if (bad) {
        fprintf(stderr, "VERIF-SHIM-ABORT: %ld cells beyond the end of a rate buffer of %zu entries were written\n", bad, n);
        fflush(stderr);
        abort();
    }
#endif
    return 0;
}
#endif
