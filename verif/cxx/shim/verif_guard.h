// Rate buffers with a poisoned tail: a write to k[i] with i far beyond NREACTIONS (e.g. a subscript taken from a
// file index) lands in memory AddressSanitizer has been told is off limits, however far it is from the red zone.
// Without ASan the tail holds a sentinel pattern that is checked afterwards.
#ifndef VERIF_GUARD_H
#define VERIF_GUARD_H
#include <cstdio>
#include <cstdlib>
#include <cstring>
#if defined(__has_feature)
#if __has_feature(address_sanitizer)
#include <sanitizer/asan_interface.h>
#define VERIF_HAVE_ASAN 1
#endif
#endif
#ifndef VERIF_GUARD_DOUBLES
#define VERIF_GUARD_DOUBLES (1u << 20)
#endif

static inline double *verif_guarded_alloc(size_t n) {
    double *p = (double *)malloc(sizeof(double) * (n + VERIF_GUARD_DOUBLES));
    unsigned long long pat = 0x7ff8dead0000beefULL;
    for (size_t i = 0; i < VERIF_GUARD_DOUBLES; i++) memcpy(&p[n + i], &pat, 8);
#ifdef VERIF_HAVE_ASAN
    ASAN_POISON_MEMORY_REGION(p + n, sizeof(double) * VERIF_GUARD_DOUBLES);
#endif
    return p;
}
// returns the number of tail cells that were overwritten (only meaningful without ASan, which aborts at the write)
static inline long verif_guarded_free(double *p, size_t n) {
#ifdef VERIF_HAVE_ASAN
    ASAN_UNPOISON_MEMORY_REGION(p + n, sizeof(double) * VERIF_GUARD_DOUBLES);
#endif
    long bad = 0;
    unsigned long long pat = 0x7ff8dead0000beefULL, v;
    for (size_t i = 0; i < VERIF_GUARD_DOUBLES; i++) { memcpy(&v, &p[n + i], 8); if (v != pat) bad++; }
    free(p);
    if (bad) {
        fprintf(stderr, "VERIF-SHIM-ABORT: %ld cells beyond the end of a rate buffer of %zu entries were written\n", bad, n);
        fflush(stderr);
        abort();
    }
    return bad;
}
#endif
