// verif shim of <sundials/sundials_types.h> (SUNDIALS 6.x surface used by naunet)
#ifndef VERIF_SUNDIALS_TYPES_H
#define VERIF_SUNDIALS_TYPES_H
#include <stdint.h>
#include <stdio.h>
#include <stdlib.h>
typedef double realtype;
typedef int64_t sunindextype;
typedef int booleantype;
#define SUNTRUE 1
#define SUNFALSE 0
struct _SUNContext { int alive; };
typedef struct _SUNContext *SUNContext;
int SUNContext_Create(void *comm, SUNContext *ctx);
int SUNContext_Free(SUNContext *ctx);
#endif
