// verif shim of <sundials/sundials_linearsolver.h>
#ifndef VERIF_SUNDIALS_LINEARSOLVER_H
#define VERIF_SUNDIALS_LINEARSOLVER_H
#include <sundials/sundials_matrix.h>
#include <sundials/sundials_nvector.h>
#include <sundials/sundials_types.h>
struct _generic_SUNLinearSolver {
    int kind;            // 0 dense, 1 klu
    sunindextype n;
    sunindextype *pivots;
    int factored;
    SUNContext sunctx;
};
typedef struct _generic_SUNLinearSolver *SUNLinearSolver;
int SUNLinSolSetup(SUNLinearSolver S, SUNMatrix A);
int SUNLinSolSolve(SUNLinearSolver S, SUNMatrix A, N_Vector x, N_Vector b, realtype tol);
int SUNLinSolFree(SUNLinearSolver S);
#endif
