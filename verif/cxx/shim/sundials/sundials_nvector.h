// verif shim of <sundials/sundials_nvector.h>
#ifndef VERIF_SUNDIALS_NVECTOR_H
#define VERIF_SUNDIALS_NVECTOR_H
#include <sundials/sundials_types.h>
struct _generic_N_Vector {
    void *content;        // used by the CUDA emulation only
    realtype *data;       // exactly `length` doubles (or NULL for an empty vector)
    sunindextype length;
    int own_data;
    SUNContext sunctx;
};
typedef struct _generic_N_Vector *N_Vector;
realtype *N_VGetArrayPointer(N_Vector v);
void N_VSetArrayPointer(realtype *v_data, N_Vector v);
void N_VConst(realtype c, N_Vector z);
void N_VDestroy(N_Vector v);
void N_VFreeEmpty(N_Vector v);
#endif
