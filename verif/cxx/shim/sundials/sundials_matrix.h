// verif shim of <sundials/sundials_matrix.h>
#ifndef VERIF_SUNDIALS_MATRIX_H
#define VERIF_SUNDIALS_MATRIX_H
#include <sundials/sundials_nvector.h>
#include <sundials/sundials_types.h>
typedef enum { SUNMATRIX_DENSE, SUNMATRIX_SPARSE, SUNMATRIX_CUSPARSE } SUNMatrix_ID;
struct _generic_SUNMatrix {
    SUNMatrix_ID id;
    sunindextype M, N, NNZ, NP;
    int sparsetype;
    int nblocks;              // cusparse emulation
    realtype *data;           // dense: M*N column-major; sparse: NNZ (x nblocks)
    sunindextype *indexvals;  // sparse: NNZ
    sunindextype *indexptrs;  // sparse: NP+1
    int *dev_rowptrs;         // cusparse emulation: M+1 ints
    int *dev_colvals;         // cusparse emulation: NNZ ints
    SUNContext sunctx;
};
typedef struct _generic_SUNMatrix *SUNMatrix;
void SUNMatDestroy(SUNMatrix A);
int SUNMatZero(SUNMatrix A);
#endif
