// verif shim of <sundials/sundials_dense.h> (nothing of it is used by generated code)
#ifndef VERIF_SUNDIALS_DENSE_H
#define VERIF_SUNDIALS_DENSE_H
#include <sundials/sundials_types.h>
#endif
