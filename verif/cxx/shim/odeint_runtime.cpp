#include <boost/numeric/odeint.hpp>
#include <stdio.h>
#include <stdlib.h>
namespace boost { namespace numeric {
namespace odeint { VerifOdeintScript verif_odeint = {1, -1, 0, 0, 0, 0, {}}; }
namespace ublas {
void verif_ublas_die(const char *what, long i, long j, long m, long n) {
    fprintf(stdout, "{\"ev\":\"shim_abort\",\"what\":\"%s\",\"i\":%ld,\"j\":%ld,\"M\":%ld,\"N\":%ld}\n", what, i, j, m, n);
    fflush(stdout);
    fprintf(stderr, "VERIF-SHIM-ABORT %s (i=%ld j=%ld M=%ld N=%ld)\n", what, i, j, m, n);
    abort();
}
}}}
