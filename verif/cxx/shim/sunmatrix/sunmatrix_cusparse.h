// verif shim of <sunmatrix/sunmatrix_cusparse.h> (CPU emulation, block-CSR with shared pattern)
#ifndef VERIF_SUNMATRIX_CUSPARSE_H
#define VERIF_SUNMATRIX_CUSPARSE_H
#include <cuda_emul.h>
#include <sundials/sundials_matrix.h>
typedef void *cusparseHandle_t;
int cusparseCreate(cusparseHandle_t *h);
int cusparseDestroy(cusparseHandle_t h);
int cusparseSetStream(cusparseHandle_t h, cudaStream_t s);
SUNMatrix SUNMatrix_cuSparse_NewBlockCSR(int nblocks, int blockrows, int blockcols, int blocknnz, cusparseHandle_t cusp, SUNContext sunctx);
realtype *SUNMatrix_cuSparse_Data(SUNMatrix A);
int SUNMatrix_cuSparse_NumBlocks(SUNMatrix A);
int SUNMatrix_cuSparse_CopyToDevice(SUNMatrix A, realtype *h_data, int *h_idxptrs, int *h_idxvals);
int SUNMatrix_cuSparse_SetFixedPattern(SUNMatrix A, int yesno);
#endif
