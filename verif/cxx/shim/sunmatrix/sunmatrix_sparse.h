// verif shim of <sunmatrix/sunmatrix_sparse.h>
#ifndef VERIF_SUNMATRIX_SPARSE_H
#define VERIF_SUNMATRIX_SPARSE_H
#include <sundials/sundials_matrix.h>
#define CSC_MAT 0
#define CSR_MAT 1
SUNMatrix SUNSparseMatrix(sunindextype M, sunindextype N, sunindextype NNZ, int sparsetype, SUNContext sunctx);
realtype *SUNSparseMatrix_Data(SUNMatrix A);
sunindextype *SUNSparseMatrix_IndexValues(SUNMatrix A);
sunindextype *SUNSparseMatrix_IndexPointers(SUNMatrix A);
sunindextype SUNSparseMatrix_NNZ(SUNMatrix A);
sunindextype SUNSparseMatrix_Rows(SUNMatrix A);
sunindextype SUNSparseMatrix_Columns(SUNMatrix A);
#endif
