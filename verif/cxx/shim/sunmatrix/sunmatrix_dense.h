// verif shim of <sunmatrix/sunmatrix_dense.h>
#ifndef VERIF_SUNMATRIX_DENSE_H
#define VERIF_SUNMATRIX_DENSE_H
#include <sundials/sundials_matrix.h>
SUNMatrix SUNDenseMatrix(sunindextype M, sunindextype N, SUNContext sunctx);
realtype *verif_sm_elem(SUNMatrix A, sunindextype i, sunindextype j, const char *file, int line);
// bounds-checked lvalue; the real macro is ((A)->cols[j][i])
#define SM_ELEMENT_D(A, i, j) (*verif_sm_elem((A), (sunindextype)(i), (sunindextype)(j), __FILE__, __LINE__))
#define SM_ROWS_D(A) ((A)->M)
#define SM_COLUMNS_D(A) ((A)->N)
sunindextype SUNDenseMatrix_Rows(SUNMatrix A);
sunindextype SUNDenseMatrix_Columns(SUNMatrix A);
realtype *SUNDenseMatrix_Data(SUNMatrix A);
#endif
