// verif shim of <boost/numeric/odeint.hpp>: the Rosenbrock4 surface naunet uses, with a
// *scripted mock* integrate_adaptive that follows Boost's observer protocol
// (observer before every step and once at the end; returns the number of steps).
#ifndef VERIF_ODEINT_HPP
#define VERIF_ODEINT_HPP
#include <stdexcept>
#include <utility>
#include <vector>
#include <boost/numeric/ublas/matrix.hpp>
#include <boost/numeric/ublas/vector.hpp>
namespace boost { namespace numeric { namespace odeint {
template <class Value>
struct rosenbrock4 {
    typedef Value value_type;
    typedef boost::numeric::ublas::vector<Value> state_type;
    typedef boost::numeric::ublas::matrix<Value> matrix_type;
};
template <class Stepper>
struct controlled_stepper_mock { double atol, rtol; };
template <class Stepper>
controlled_stepper_mock<Stepper> make_controlled(double atol, double rtol) {
    controlled_stepper_mock<Stepper> s; s.atol = atol; s.rtol = rtol; return s;
}
struct odeint_error : public std::runtime_error { explicit odeint_error(const std::string &s) : std::runtime_error(s) {} };
struct step_adjustment_error : public odeint_error { explicit step_adjustment_error(const std::string &s) : odeint_error(s) {} };

struct VerifOdeintScript {
    long nsteps;        // number of steps the mock takes to cover [t0, t1]
    long throw_at;      // >=0: throw step_adjustment_error before taking step #throw_at
    long stall;         // this many of the steps (from step 1 on) do not advance the time the observer sees (t + h == t for a tiny h)
    long observer_calls, fex_calls, jac_calls;
    std::vector<double> observed_t;
};
extern VerifOdeintScript verif_odeint;

template <class Stepper, class System, class State, class Time, class Observer>
size_t integrate_adaptive(controlled_stepper_mock<Stepper> st, System system, State &x, Time t0, Time t1, Time dt, Observer obs) {
    (void)st; (void)dt;
    long n = verif_odeint.nsteps < 1 ? 1 : verif_odeint.nsteps;
    size_t count = 0;
    Time t = t0;
    State dxdt(x.size());
    typename rosenbrock4<double>::matrix_type J(x.size(), x.size());
    State dfdt(x.size());
    for (long s = 0; s < n; s++) {
        obs(x, t);
        verif_odeint.observer_calls++;
        verif_odeint.observed_t.push_back(t);
        if (verif_odeint.throw_at == s) throw step_adjustment_error("Max number of iterations exceeded (verif mock)");
        // exercise the real generated functors as a Rosenbrock step would
        system.first(x, dxdt, t); verif_odeint.fex_calls++;
        system.second(x, J, t, dfdt); verif_odeint.jac_calls++;
        // step 0 advances, steps 1..stall leave t where it is, the remaining ones advance; the last step always ends at t1
        long stall = verif_odeint.stall < 0 ? 0 : (verif_odeint.stall > n - 1 ? n - 1 : verif_odeint.stall);
        long prog = n - stall, p = (s <= stall) ? 1 : s + 1 - stall;
        Time tn = (s == n - 1) ? t1 : t0 + (t1 - t0) * (Time)p / (Time)prog;
        if (tn < t) tn = t;
        for (size_t i = 0; i < x.size(); i++) x[i] += (tn - t);
        t = tn;
        ++count;
    }
    obs(x, t);
    verif_odeint.observer_calls++;
    verif_odeint.observed_t.push_back(t);
    return count;
}
}}}
#endif
