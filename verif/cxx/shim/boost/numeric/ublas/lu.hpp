// verif shim of boost/numeric/ublas/lu.hpp: permutation_matrix, lu_factorize, lu_substitute
#ifndef VERIF_UBLAS_LU_HPP
#define VERIF_UBLAS_LU_HPP
#include <math.h>
#include <boost/numeric/ublas/matrix.hpp>
#include <boost/numeric/ublas/vector.hpp>
namespace boost { namespace numeric { namespace ublas {
template <class T = size_t>
class permutation_matrix {
   public:
    explicit permutation_matrix(size_t n) : p_(n) { for (size_t i = 0; i < n; i++) p_[i] = (T)i; }
    size_t size() const { return p_.size(); }
    T &operator()(size_t i) { return p_[i]; }
    const T &operator()(size_t i) const { return p_[i]; }
   private:
    std::vector<T> p_;
};
// returns 0 on success, k+1 if singular at column k (as ublas does)
template <class M, class PM>
size_t lu_factorize(M &a, PM &pm) {
    size_t n = a.size1(), singular = 0;
    for (size_t k = 0; k < n; k++) {
        size_t p = k;
        for (size_t i = k + 1; i < n; i++) if (fabs(a(i, k)) > fabs(a(p, k))) p = i;
        pm(k) = p;
        if (a(p, k) == 0.0 || a(p, k) != a(p, k)) { if (!singular) singular = k + 1; continue; }
        if (p != k) for (size_t j = 0; j < n; j++) { double t = a(k, j); a(k, j) = a(p, j); a(p, j) = t; }
        for (size_t i = k + 1; i < n; i++) a(i, k) /= a(k, k);
        for (size_t i = k + 1; i < n; i++) for (size_t j = k + 1; j < n; j++) a(i, j) -= a(i, k) * a(k, j);
    }
    return singular;
}
template <class M, class PM, class V>
void lu_substitute(const M &a, const PM &pm, V &v) {
    size_t n = a.size1();
    for (size_t k = 0; k < n; k++) { size_t p = pm(k); if (p != k) { double t = v[k]; v[k] = v[p]; v[p] = t; } }
    for (size_t k = 0; k < n; k++) for (size_t i = k + 1; i < n; i++) v[i] -= a(i, k) * v[k];
    for (size_t kk = n; kk-- > 0;) { for (size_t j = kk + 1; j < n; j++) v[kk] -= a(kk, j) * v[j]; v[kk] /= a(kk, kk); }
}
}}}
#endif
