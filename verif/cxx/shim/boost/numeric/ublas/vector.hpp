// verif shim of boost::numeric::ublas::vector — bounds-checked, exactly sized
#ifndef VERIF_UBLAS_VECTOR_HPP
#define VERIF_UBLAS_VECTOR_HPP
#include <stddef.h>
#include <stdio.h>
#include <stdlib.h>
#include <vector>
namespace boost { namespace numeric { namespace ublas {
void verif_ublas_die(const char *what, long i, long j, long m, long n);
template <class T>
class vector {
   public:
    typedef T value_type;
    typedef size_t size_type;
    vector() {}
    explicit vector(size_t n) : d_(n) {}
    vector(size_t n, const T &v) : d_(n, v) {}
    size_t size() const { return d_.size(); }
    void resize(size_t n, bool preserve = true) { (void)preserve; d_.resize(n); }
    T &operator[](size_t i) { chk(i); return d_[i]; }
    const T &operator[](size_t i) const { chk(i); return d_[i]; }
    T &operator()(size_t i) { chk(i); return d_[i]; }
    const T &operator()(size_t i) const { chk(i); return d_[i]; }
    typename std::vector<T>::iterator begin() { return d_.begin(); }
    typename std::vector<T>::iterator end() { return d_.end(); }
    typename std::vector<T>::const_iterator begin() const { return d_.begin(); }
    typename std::vector<T>::const_iterator end() const { return d_.end(); }
   private:
    void chk(size_t i) const { if (i >= d_.size()) verif_ublas_die("ublas_vector_index", (long)i, 0, (long)d_.size(), 0); }
    std::vector<T> d_;
};
}}}
#endif
