// verif shim of boost::numeric::ublas::matrix / zero_matrix — bounds-checked, row-major
#ifndef VERIF_UBLAS_MATRIX_HPP
#define VERIF_UBLAS_MATRIX_HPP
#include <boost/numeric/ublas/vector.hpp>
namespace boost { namespace numeric { namespace ublas {
template <class T>
class zero_matrix {
   public:
    zero_matrix(size_t m, size_t n) : m_(m), n_(n) {}
    size_t size1() const { return m_; }
    size_t size2() const { return n_; }
   private:
    size_t m_, n_;
};
template <class T>
class matrix {
   public:
    typedef T value_type;
    matrix() : m_(0), n_(0) {}
    matrix(size_t m, size_t n) : m_(m), n_(n), d_(m * n) {}
    matrix(const zero_matrix<T> &z) : m_(z.size1()), n_(z.size2()), d_(z.size1() * z.size2(), T(0)) {}
    matrix &operator=(const zero_matrix<T> &z) {
        m_ = z.size1(); n_ = z.size2(); d_.assign(m_ * n_, T(0)); return *this;
    }
    size_t size1() const { return m_; }
    size_t size2() const { return n_; }
    T &operator()(size_t i, size_t j) { chk(i, j); return d_[i * n_ + j]; }
    const T &operator()(size_t i, size_t j) const { chk(i, j); return d_[i * n_ + j]; }
   private:
    void chk(size_t i, size_t j) const {
        if (i >= m_ || j >= n_) verif_ublas_die("ublas_matrix_index", (long)i, (long)j, (long)m_, (long)n_);
    }
    size_t m_, n_;
    std::vector<T> d_;
};
}}}
#endif
