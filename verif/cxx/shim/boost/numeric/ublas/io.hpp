#ifndef VERIF_UBLAS_IO_HPP
#define VERIF_UBLAS_IO_HPP
#include <boost/numeric/ublas/matrix.hpp>
#include <boost/numeric/ublas/vector.hpp>
#endif
