// Run-time of the SUNDIALS shim used by /verif.  Exactly-sized buffers (so that ASan sees
// every off-by-one), bounds-checked element accessors, a small dense LU, and a scripted mock
// CVODE whose "solution" is y(t) = y(tn) + (t - tn) in every component.
#include <cvode/cvode.h>
#include <math.h>
#include <nvector/nvector_serial.h>
#include <stdio.h>
#include <stdlib.h>
#include <string.h>
#include <sunlinsol/sunlinsol_dense.h>
#include <sunlinsol/sunlinsol_klu.h>
#include <sunmatrix/sunmatrix_dense.h>
#include <sunmatrix/sunmatrix_sparse.h>

#include "verif_shim.h"

VerifShimState verif_shim = {{}, {}, 0, 0, {}, true, 0, 0, 0, 0, 0, 0, 0};

static void shim_die(const char *what, const char *file, int line, long i, long j, long m, long n) {
    fprintf(stdout, "{\"ev\":\"shim_abort\",\"what\":\"%s\",\"file\":\"%s\",\"line\":%d,\"i\":%ld,\"j\":%ld,\"M\":%ld,\"N\":%ld}\n",
            what, file, line, i, j, m, n);
    fflush(stdout);
    fprintf(stderr, "VERIF-SHIM-ABORT %s at %s:%d (i=%ld j=%ld M=%ld N=%ld)\n", what, file, line, i, j, m, n);
    abort();
}

/* ---------------- context ---------------- */
int SUNContext_Create(void *comm, SUNContext *ctx) {
    (void)comm;
    *ctx = (SUNContext)malloc(sizeof(struct _SUNContext));
    (*ctx)->alive = 1;
    verif_shim.live_contexts++;
    return 0;
}
int SUNContext_Free(SUNContext *ctx) {
    if (ctx && *ctx) {
        free(*ctx);
        *ctx = NULL;
        verif_shim.live_contexts--;
    }
    return 0;
}

/* ---------------- vectors ---------------- */
static N_Vector nv_alloc(sunindextype n, realtype *data, int own, SUNContext ctx) {
    N_Vector v  = (N_Vector)malloc(sizeof(struct _generic_N_Vector));
    v->content  = NULL;
    v->length   = n;
    v->own_data = own;
    v->sunctx   = ctx;
    v->data     = data;
    if (own) {
        // exactly n doubles; n == 0 is a genuine 0-byte allocation
        v->data = (realtype *)malloc(sizeof(realtype) * (size_t)n);
        for (sunindextype i = 0; i < n; i++) v->data[i] = 0.0;
    }
    verif_shim.live_vectors++;
    return v;
}
N_Vector N_VNew_Serial(sunindextype n, SUNContext ctx) { return nv_alloc(n, NULL, 1, ctx); }
N_Vector N_VNewEmpty_Serial(sunindextype n, SUNContext ctx) { return nv_alloc(n, NULL, 0, ctx); }
N_Vector N_VMake_Serial(sunindextype n, realtype *d, SUNContext ctx) { return nv_alloc(n, d, 0, ctx); }
realtype *N_VGetArrayPointer(N_Vector v) { return v->data; }
void N_VSetArrayPointer(realtype *d, N_Vector v) { v->data = d; }
void N_VConst(realtype c, N_Vector z) {
    for (sunindextype i = 0; i < z->length; i++) z->data[i] = c;
}
void N_VDestroy(N_Vector v) {
    if (!v) return;
    if (v->own_data) free(v->data);
    free(v);
    verif_shim.live_vectors--;
}
void N_VFreeEmpty(N_Vector v) {
    if (!v) return;
    free(v);
    verif_shim.live_vectors--;
}
realtype *verif_nv_elem(N_Vector v, sunindextype i, const char *file, int line) {
    if (i < 0 || i >= v->length) shim_die("nvector_index", file, line, (long)i, 0, (long)v->length, 0);
    return &v->data[i];
}

/* ---------------- matrices ---------------- */
SUNMatrix SUNDenseMatrix(sunindextype M, sunindextype N, SUNContext ctx) {
    SUNMatrix A  = (SUNMatrix)calloc(1, sizeof(struct _generic_SUNMatrix));
    A->id        = SUNMATRIX_DENSE;
    A->M         = M;
    A->N         = N;
    A->sunctx    = ctx;
    A->data      = (realtype *)malloc(sizeof(realtype) * (size_t)(M * N));
    for (sunindextype i = 0; i < M * N; i++) A->data[i] = 0.0;
    verif_shim.live_matrices++;
    return A;
}
realtype *verif_sm_elem(SUNMatrix A, sunindextype i, sunindextype j, const char *file, int line) {
    if (A->id != SUNMATRIX_DENSE) shim_die("sm_element_on_non_dense", file, line, (long)i, (long)j, (long)A->M, (long)A->N);
    if (i < 0 || i >= A->M || j < 0 || j >= A->N)
        shim_die("dense_index", file, line, (long)i, (long)j, (long)A->M, (long)A->N);
    return &A->data[j * A->M + i];
}
sunindextype SUNDenseMatrix_Rows(SUNMatrix A) { return A->M; }
sunindextype SUNDenseMatrix_Columns(SUNMatrix A) { return A->N; }
realtype *SUNDenseMatrix_Data(SUNMatrix A) { return A->data; }

SUNMatrix SUNSparseMatrix(sunindextype M, sunindextype N, sunindextype NNZ, int sparsetype, SUNContext ctx) {
    SUNMatrix A   = (SUNMatrix)calloc(1, sizeof(struct _generic_SUNMatrix));
    A->id         = SUNMATRIX_SPARSE;
    A->M          = M;
    A->N          = N;
    A->NNZ        = NNZ;
    A->sparsetype = sparsetype;
    A->NP         = (sparsetype == CSR_MAT) ? M : N;
    A->sunctx     = ctx;
    A->data       = (realtype *)malloc(sizeof(realtype) * (size_t)NNZ);
    A->indexvals  = (sunindextype *)malloc(sizeof(sunindextype) * (size_t)NNZ);
    A->indexptrs  = (sunindextype *)malloc(sizeof(sunindextype) * (size_t)(A->NP + 1));
    for (sunindextype i = 0; i < NNZ; i++) { A->data[i] = 0.0; A->indexvals[i] = 0; }
    for (sunindextype i = 0; i < A->NP + 1; i++) A->indexptrs[i] = 0;
    verif_shim.live_matrices++;
    return A;
}
realtype *SUNSparseMatrix_Data(SUNMatrix A) { return A->data; }
sunindextype *SUNSparseMatrix_IndexValues(SUNMatrix A) { return A->indexvals; }
sunindextype *SUNSparseMatrix_IndexPointers(SUNMatrix A) { return A->indexptrs; }
sunindextype SUNSparseMatrix_NNZ(SUNMatrix A) { return A->NNZ; }
sunindextype SUNSparseMatrix_Rows(SUNMatrix A) { return A->M; }
sunindextype SUNSparseMatrix_Columns(SUNMatrix A) { return A->N; }

void SUNMatDestroy(SUNMatrix A) {
    if (!A) return;
    free(A->data);
    free(A->indexvals);
    free(A->indexptrs);
    free(A->dev_rowptrs);
    free(A->dev_colvals);
    free(A);
    verif_shim.live_matrices--;
}
int SUNMatZero(SUNMatrix A) {
    if (A->id == SUNMATRIX_DENSE) {
        for (sunindextype i = 0; i < A->M * A->N; i++) A->data[i] = 0.0;
    } else if (A->id == SUNMATRIX_SPARSE) {
        for (sunindextype i = 0; i < A->NNZ; i++) { A->data[i] = 0.0; A->indexvals[i] = 0; }
        for (sunindextype i = 0; i < A->NP + 1; i++) A->indexptrs[i] = 0;
    } else {
        for (sunindextype i = 0; i < A->NNZ * A->nblocks; i++) A->data[i] = 0.0;
    }
    return 0;
}

/* ---------------- linear solvers (dense LU with partial pivoting) ---------------- */
static SUNLinearSolver ls_new(int kind, sunindextype n, SUNContext ctx) {
    SUNLinearSolver S = (SUNLinearSolver)calloc(1, sizeof(struct _generic_SUNLinearSolver));
    S->kind           = kind;
    S->n              = n;
    S->pivots         = (sunindextype *)malloc(sizeof(sunindextype) * (size_t)n);
    for (sunindextype i = 0; i < n; i++) S->pivots[i] = i;   // a failed (singular / NaN) factorisation leaves a usable identity
    S->sunctx         = ctx;
    verif_shim.live_solvers++;
    return S;
}
SUNLinearSolver SUNLinSol_Dense(N_Vector y, SUNMatrix A, SUNContext ctx) {
    if (A->id != SUNMATRIX_DENSE || A->M != A->N || y->length != A->M) return NULL;
    return ls_new(0, A->M, ctx);
}
SUNLinearSolver SUNLinSol_KLU(N_Vector y, SUNMatrix A, SUNContext ctx) {
    if (A->id != SUNMATRIX_SPARSE || A->M != A->N || y->length != A->M) return NULL;
    return ls_new(1, A->M, ctx);
}
int SUNLinSolSetup(SUNLinearSolver S, SUNMatrix A) {
    if (S->kind != 0) return 0;
    sunindextype n = S->n;
    realtype *a    = A->data;  // column-major a[j*n+i]
    for (sunindextype k = 0; k < n; k++) {
        sunindextype p = k;
        for (sunindextype i = k + 1; i < n; i++)
            if (fabs(a[k * n + i]) > fabs(a[k * n + p])) p = i;
        S->pivots[k] = p;
        if (a[k * n + p] == 0.0 || a[k * n + p] != a[k * n + p]) return (int)(k + 1);  // singular (positive = recoverable)
        if (p != k)
            for (sunindextype j = 0; j < n; j++) {
                realtype t   = a[j * n + k];
                a[j * n + k] = a[j * n + p];
                a[j * n + p] = t;
            }
        for (sunindextype i = k + 1; i < n; i++) a[k * n + i] /= a[k * n + k];
        for (sunindextype j = k + 1; j < n; j++)
            for (sunindextype i = k + 1; i < n; i++) a[j * n + i] -= a[k * n + i] * a[j * n + k];
    }
    S->factored = 1;
    return 0;
}
int SUNLinSolSolve(SUNLinearSolver S, SUNMatrix A, N_Vector x, N_Vector b, realtype tol) {
    (void)tol;
    if (S->kind != 0) return 0;
    sunindextype n = S->n;
    realtype *a    = A->data;
    for (sunindextype i = 0; i < n; i++) x->data[i] = b->data[i];
    realtype *v = x->data;
    for (sunindextype k = 0; k < n; k++) {
        sunindextype p = S->pivots[k];
        if (p != k) { realtype t = v[k]; v[k] = v[p]; v[p] = t; }
    }
    for (sunindextype k = 0; k < n; k++)
        for (sunindextype i = k + 1; i < n; i++) v[i] -= a[k * n + i] * v[k];
    for (sunindextype k = n - 1; k >= 0; k--) {
        for (sunindextype j = k + 1; j < n; j++) v[k] -= a[j * n + k] * v[j];
        v[k] /= a[k * n + k];
    }
    return 0;
}
int SUNLinSolFree(SUNLinearSolver S) {
    if (!S) return 0;
    free(S->pivots);
    free(S);
    verif_shim.live_solvers--;
    return 0;
}

/* ---------------- scripted mock CVODE ---------------- */
struct VerifCVMem {
    CVRhsFn f;
    CVLsJacFn jac;
    void *user_data;
    N_Vector y;
    SUNMatrix A;
    realtype tn;
    long mxsteps;
    SUNContext ctx;
    int inited;
    int fresh;   // no step taken since CVodeInit/CVodeReInit
};

void *CVodeCreate(int lmm, SUNContext ctx) {
    (void)lmm;
    VerifCVMem *m = (VerifCVMem *)calloc(1, sizeof(VerifCVMem));
    m->ctx        = ctx;
    verif_shim.live_cvmem++;
    return m;
}
int CVodeSetErrFile(void *mem, FILE *fp) { (void)fp; return mem ? CV_SUCCESS : CV_MEM_NULL; }
int CVodeSetMaxNumSteps(void *mem, long int mx) {
    if (!mem) return CV_MEM_NULL;
    ((VerifCVMem *)mem)->mxsteps = mx;
    return CV_SUCCESS;
}
int CVodeInit(void *mem, CVRhsFn f, realtype t0, N_Vector y0) {
    if (!mem) return CV_MEM_NULL;
    VerifCVMem *m = (VerifCVMem *)mem;
    m->f = f; m->tn = t0; m->y = y0; m->inited = 1; m->fresh = 1;
    verif_shim.calls.push_back({2, t0, t0, t0, 0});
    return CV_SUCCESS;
}
int CVodeReInit(void *mem, realtype t0, N_Vector y0) {
    if (!mem) return CV_MEM_NULL;
    VerifCVMem *m = (VerifCVMem *)mem;
    int flag      = CV_SUCCESS;
    if (verif_shim.reinit_pos < verif_shim.reinit_script.size()) flag = verif_shim.reinit_script[verif_shim.reinit_pos++];
    verif_shim.calls.push_back({1, t0, m->tn, t0, flag});
    if (flag < 0) return flag;
    m->tn = t0; m->y = y0; m->fresh = 1;
    return flag;
}
int CVodeSStolerances(void *mem, realtype r, realtype a) { (void)r; (void)a; return mem ? CV_SUCCESS : CV_MEM_NULL; }
int CVodeSetLinearSolver(void *mem, SUNLinearSolver LS, SUNMatrix A) {
    if (!mem) return CV_MEM_NULL;
    if (!LS) return CV_ILL_INPUT;
    ((VerifCVMem *)mem)->A = A;
    return CV_SUCCESS;
}
int CVodeSetJacFn(void *mem, CVLsJacFn jac) {
    if (!mem) return CV_MEM_NULL;
    ((VerifCVMem *)mem)->jac = jac;
    return CV_SUCCESS;
}
int CVodeSetUserData(void *mem, void *ud) {
    if (!mem) return CV_MEM_NULL;
    ((VerifCVMem *)mem)->user_data = ud;
    return CV_SUCCESS;
}
int CVode(void *mem, realtype tout, N_Vector yout, realtype *tret, int itask) {
    (void)itask;
    if (!mem) return CV_MEM_NULL;
    VerifCVMem *m = (VerifCVMem *)mem;
    VerifCVOutcome oc = {CV_SUCCESS, 1.0};
    if (verif_shim.cvode_pos < verif_shim.cvode_script.size()) oc = verif_shim.cvode_script[verif_shim.cvode_pos++];
    realtype tn0 = m->tn;
    // documented CVODE input checks (cvode.c: CVode): tout must be a number, must not lie behind the
    // current time, and on the first step after (re)initialisation must not be "too close" to t0
    if (tout != tout) {
        *tret = tn0;
        verif_shim.calls.push_back({0, tout, tn0, tn0, CV_ILL_INPUT});
        return CV_ILL_INPUT;
    }
    if (tout < tn0) {
        *tret = tn0;
        verif_shim.calls.push_back({0, tout, tn0, tn0, CV_ILL_INPUT});
        return CV_ILL_INPUT;
    }
    if (m->fresh) {
        realtype tround = 2.220446049250313e-16 * fmax(fabs(tn0), fabs(tout));
        if (fabs(tout - tn0) < 2.0 * tround || tout == tn0) {
            *tret = tn0;
            verif_shim.calls.push_back({0, tout, tn0, tn0, -27});
            return -27;  // CV_TOO_CLOSE
        }
    }
    m->fresh = 0;
    // exercise the real generated callbacks on the vector CVODE was given
    if (verif_shim.call_rhs && m->f) {
        N_Vector yd = N_VNew_Serial(yout->length, m->ctx);
        m->f(m->tn, yout, yd, m->user_data);
        verif_shim.rhs_calls++;
        if (m->jac && m->A) {
            m->jac(m->tn, yout, yd, m->A, m->user_data, NULL, NULL, NULL);
            verif_shim.jac_calls++;
        }
        N_VDestroy(yd);
    }
    realtype tnew = tout;
    if (oc.flag < 0) {
        realtype fr = oc.frac;
        if (fr < 0.0) fr = 0.0;
        if (fr > 1.0) fr = 1.0;
        tnew = tn0 + fr * (tout - tn0);
    }
    realtype adv = tnew - tn0;
    for (sunindextype i = 0; i < yout->length; i++) yout->data[i] += adv;
    m->tn  = tnew;
    *tret  = tnew;
    verif_shim.calls.push_back({0, tout, tn0, tnew, oc.flag});
    return oc.flag;
}
void CVodeFree(void **mem) {
    if (mem && *mem) {
        free(*mem);
        *mem = NULL;
        verif_shim.live_cvmem--;
    }
}
static int getnum(void *mem, long int *n) { if (!mem) return CV_MEM_NULL; *n = 0; return CV_SUCCESS; }
int CVodeGetNumSteps(void *m, long int *n) { return getnum(m, n); }
int CVodeGetNumRhsEvals(void *m, long int *n) { return getnum(m, n); }
int CVodeGetNumLinSolvSetups(void *m, long int *n) { return getnum(m, n); }
int CVodeGetNumErrTestFails(void *m, long int *n) { return getnum(m, n); }
int CVodeGetNumNonlinSolvIters(void *m, long int *n) { return getnum(m, n); }
int CVodeGetNumNonlinSolvConvFails(void *m, long int *n) { return getnum(m, n); }
int CVodeGetNumJacEvals(void *m, long int *n) { return getnum(m, n); }
int CVodeGetNumGEvals(void *m, long int *n) { return getnum(m, n); }
int CVodeGetCurrentTime(void *mem, realtype *t) {
    if (!mem) return CV_MEM_NULL;
    *t = ((VerifCVMem *)mem)->tn;
    return CV_SUCCESS;
}
