// verif shim of <nvector/nvector_serial.h>
#ifndef VERIF_NVECTOR_SERIAL_H
#define VERIF_NVECTOR_SERIAL_H
#include <sundials/sundials_nvector.h>
N_Vector N_VNew_Serial(sunindextype vec_length, SUNContext sunctx);
N_Vector N_VNewEmpty_Serial(sunindextype vec_length, SUNContext sunctx);
N_Vector N_VMake_Serial(sunindextype vec_length, realtype *v_data, SUNContext sunctx);
#define NV_DATA_S(v) ((v)->data)
#define NV_LENGTH_S(v) ((v)->length)
#define NV_Ith_S(v, i) (*verif_nv_elem((v), (sunindextype)(i), __FILE__, __LINE__))
realtype *verif_nv_elem(N_Vector v, sunindextype i, const char *file, int line);
#endif
