// verif shim of <nvector/nvector_cuda.h> (CPU emulation)
#ifndef VERIF_NVECTOR_CUDA_H
#define VERIF_NVECTOR_CUDA_H
#include <cuda_emul.h>
#include <sundials/sundials_nvector.h>
class SUNCudaExecPolicy {
   public:
    virtual size_t gridSize(size_t numWorkUnits = 0, size_t blockDim = 0) const = 0;
    virtual size_t blockSize(size_t numWorkUnits = 0, size_t gridDim = 0) const = 0;
    virtual const cudaStream_t *stream() const = 0;
    virtual ~SUNCudaExecPolicy() {}
};
class SUNCudaThreadDirectExecPolicy : public SUNCudaExecPolicy {
   public:
    SUNCudaThreadDirectExecPolicy(const size_t blockDim, const cudaStream_t stream = 0) : blockDim_(blockDim), stream_(stream) {}
    size_t gridSize(size_t numWorkUnits = 0, size_t = 0) const { return (numWorkUnits + blockDim_ - 1) / blockDim_; }
    size_t blockSize(size_t = 0, size_t = 0) const { return blockDim_; }
    const cudaStream_t *stream() const { return &stream_; }
   private:
    size_t blockDim_;
    cudaStream_t stream_;
};
class SUNCudaBlockReduceExecPolicy : public SUNCudaExecPolicy {
   public:
    SUNCudaBlockReduceExecPolicy(const size_t blockDim, const size_t gridDim = 0, const cudaStream_t stream = 0)
        : blockDim_(blockDim), gridDim_(gridDim), stream_(stream) {}
    size_t gridSize(size_t numWorkUnits = 0, size_t = 0) const { return gridDim_ ? gridDim_ : (numWorkUnits + blockDim_ * 2 - 1) / (blockDim_ * 2); }
    size_t blockSize(size_t = 0, size_t = 0) const { return blockDim_; }
    const cudaStream_t *stream() const { return &stream_; }
   private:
    size_t blockDim_, gridDim_;
    cudaStream_t stream_;
};
struct _N_VectorContent_Cuda {
    sunindextype length;
    SUNCudaExecPolicy *stream_exec_policy;
    SUNCudaExecPolicy *reduce_exec_policy;
};
typedef struct _N_VectorContent_Cuda *N_VectorContent_Cuda;
N_Vector N_VNew_Cuda(sunindextype length, SUNContext sunctx);
int N_VSetKernelExecPolicy_Cuda(N_Vector x, SUNCudaExecPolicy *stream_exec_policy, SUNCudaExecPolicy *reduce_exec_policy);
realtype *N_VGetDeviceArrayPointer_Cuda(N_Vector v);
realtype *N_VGetHostArrayPointer_Cuda(N_Vector v);
void N_VSpace_Cuda(N_Vector v, sunindextype *lrw, sunindextype *liw);
void N_VDestroy_Cuda(N_Vector v);
N_Vector N_VNewEmpty_Cuda(SUNContext sunctx);
void N_VSetHostArrayPointer_Cuda(realtype *h_vdata, N_Vector v);
void N_VCopyToDevice_Cuda(N_Vector v);
void N_VCopyFromDevice_Cuda(N_Vector v);
#endif
