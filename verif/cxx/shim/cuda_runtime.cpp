#include <cuda_emul.h>
#include <nvector/nvector_cuda.h>
#include <stdio.h>
#include <sunmatrix/sunmatrix_cusparse.h>
#include <sunlinsol/sunlinsol_cusolversp_batchqr.h>
#include "verif_shim.h"
verif_dim3 blockIdx = {0, 0, 0}, blockDim = {1, 1, 1}, threadIdx = {0, 0, 0}, gridDim = {1, 1, 1};
long verif_kernel_threads = 0;
static unsigned l_grid = 1, l_block = 1, l_cur = 0;
cudaError_t cudaMalloc(void **p, size_t n) { *p = malloc(n); return cudaSuccess; }   // exact size: ASan guards it
cudaError_t cudaFree(void *p) { free(p); return cudaSuccess; }
cudaError_t cudaMemcpyAsync(void *d, const void *s, size_t n, cudaMemcpyKind, cudaStream_t) { memcpy(d, s, n); return cudaSuccess; }
cudaError_t cudaMemcpy(void *d, const void *s, size_t n, cudaMemcpyKind) { memcpy(d, s, n); return cudaSuccess; }
cudaError_t cudaDeviceSynchronize() { return cudaSuccess; }
int verif_live_streams = 0, verif_live_handles = 0, verif_live_hostbufs = 0;
cudaError_t cudaMallocHost(void **p, size_t n) { *p = malloc(n); verif_live_hostbufs++; return cudaSuccess; }   // exact size
cudaError_t cudaFreeHost(void *p) { if (p) verif_live_hostbufs--; free(p); return cudaSuccess; }
cudaError_t cudaStreamCreate(cudaStream_t *s) { static int next = 1; *s = next++; verif_live_streams++; return cudaSuccess; }
cudaError_t cudaStreamDestroy(cudaStream_t) { verif_live_streams--; return cudaSuccess; }
int cusparseCreate(cusparseHandle_t *h) { *h = malloc(1); verif_live_handles++; return 0; }
int cusparseDestroy(cusparseHandle_t h) { free(h); verif_live_handles--; return 0; }
int cusparseSetStream(cusparseHandle_t, cudaStream_t) { return 0; }
int cusolverSpCreate(cusolverSpHandle_t *h) { *h = malloc(1); verif_live_handles++; return 0; }
int cusolverSpDestroy(cusolverSpHandle_t h) { free(h); verif_live_handles--; return 0; }
int cusolverSpSetStream(cusolverSpHandle_t, cudaStream_t) { return 0; }
SUNLinearSolver SUNLinSol_cuSolverSp_batchQR(N_Vector y, SUNMatrix A, cusolverSpHandle_t h, SUNContext ctx) {
    if (!y || !A || !h) return NULL;
    SUNLinearSolver S = (SUNLinearSolver)calloc(1, sizeof(struct _generic_SUNLinearSolver));
    S->kind = 2; S->n = y->length; S->pivots = NULL; S->sunctx = ctx;
    verif_shim.live_solvers++;
    return S;
}
void SUNLinSol_cuSolverSp_batchQR_GetDeviceSpace(SUNLinearSolver, size_t *a, size_t *b) { *a = 0; *b = 0; }
cudaError_t cudaGetLastError() { return cudaSuccess; }
const char *cudaGetErrorName(cudaError_t) { return "cudaSuccess"; }
static void set_ids() {
    gridDim.x = l_grid; blockDim.x = l_block;
    blockIdx.x = l_cur / l_block; threadIdx.x = l_cur % l_block;
}
void verif_launch_begin(size_t grid, size_t block, size_t, cudaStream_t) {
    l_grid = grid ? (unsigned)grid : 1; l_block = block ? (unsigned)block : 1; l_cur = 0; set_ids();
}
bool verif_launch_more() { return l_cur < l_grid * l_block; }
void verif_launch_next() { l_cur++; verif_kernel_threads++; if (verif_launch_more()) set_ids(); }

N_Vector N_VNew_Cuda(sunindextype n, SUNContext ctx) {
    N_Vector v  = (N_Vector)malloc(sizeof(struct _generic_N_Vector));
    N_VectorContent_Cuda c = (N_VectorContent_Cuda)malloc(sizeof(struct _N_VectorContent_Cuda));
    c->length = n; c->stream_exec_policy = NULL; c->reduce_exec_policy = NULL;
    v->content = c; v->length = n; v->own_data = 1; v->sunctx = ctx;
    v->data = (realtype *)malloc(sizeof(realtype) * (size_t)n);
    for (sunindextype i = 0; i < n; i++) v->data[i] = 0.0;
    verif_shim.live_vectors++;
    return v;
}
N_Vector N_VNewEmpty_Cuda(SUNContext ctx) {
    N_Vector v = N_VNew_Cuda(0, ctx);
    free(v->data); v->data = NULL; v->own_data = 0;
    return v;
}
// host and device memory are the same memory in the emulation: the vector works on the caller's host array
void N_VSetHostArrayPointer_Cuda(realtype *h, N_Vector v) { if (v->own_data) free(v->data); v->own_data = 0; v->data = h; }
void N_VCopyToDevice_Cuda(N_Vector) {}
void N_VCopyFromDevice_Cuda(N_Vector) {}
int N_VSetKernelExecPolicy_Cuda(N_Vector x, SUNCudaExecPolicy *s, SUNCudaExecPolicy *r) {
    ((N_VectorContent_Cuda)x->content)->stream_exec_policy = s;
    ((N_VectorContent_Cuda)x->content)->reduce_exec_policy = r;
    return 0;
}
realtype *N_VGetDeviceArrayPointer_Cuda(N_Vector v) { return v->data; }
realtype *N_VGetHostArrayPointer_Cuda(N_Vector v) { return v->data; }
void N_VSpace_Cuda(N_Vector v, sunindextype *lrw, sunindextype *liw) { *lrw = v->length; *liw = 2; }
void N_VDestroy_Cuda(N_Vector v) { if (!v) return; free(v->content); if (v->own_data) free(v->data); free(v); verif_shim.live_vectors--; }

SUNMatrix SUNMatrix_cuSparse_NewBlockCSR(int nblocks, int rows, int cols, int nnz, cusparseHandle_t, SUNContext ctx) {
    SUNMatrix A = (SUNMatrix)calloc(1, sizeof(struct _generic_SUNMatrix));
    A->id = SUNMATRIX_CUSPARSE; A->M = rows; A->N = cols; A->NNZ = nnz; A->nblocks = nblocks; A->sunctx = ctx;
    A->data = (realtype *)malloc(sizeof(realtype) * (size_t)nnz * (size_t)nblocks);
    A->dev_rowptrs = (int *)malloc(sizeof(int) * (size_t)(rows + 1));
    A->dev_colvals = (int *)malloc(sizeof(int) * (size_t)nnz);
    for (long i = 0; i < (long)nnz * nblocks; i++) A->data[i] = 0.0;
    for (int i = 0; i < rows + 1; i++) A->dev_rowptrs[i] = -777;
    for (int i = 0; i < nnz; i++) A->dev_colvals[i] = -777;
    verif_shim.live_matrices++;
    return A;
}
realtype *SUNMatrix_cuSparse_Data(SUNMatrix A) { return A->data; }
int SUNMatrix_cuSparse_NumBlocks(SUNMatrix A) { return A->nblocks; }
int SUNMatrix_cuSparse_CopyToDevice(SUNMatrix A, realtype *h_data, int *h_idxptrs, int *h_idxvals) {
    // the real routine copies M+1 and NNZ ints from the host arrays: reading them here makes an
    // undersized host array an ASan/UBSan event
    if (h_data) memcpy(A->data, h_data, sizeof(realtype) * (size_t)A->NNZ * (size_t)A->nblocks);
    if (h_idxptrs) memcpy(A->dev_rowptrs, h_idxptrs, sizeof(int) * (size_t)(A->M + 1));
    if (h_idxvals) memcpy(A->dev_colvals, h_idxvals, sizeof(int) * (size_t)A->NNZ);
    return 0;
}
int SUNMatrix_cuSparse_SetFixedPattern(SUNMatrix, int) { return 0; }
