// CPU emulation of the small CUDA surface used by naunet's cusparse kernels.
// Compiled with -D__global__= -D__device__= -D__host__= -D__constant__=const.
#ifndef VERIF_CUDA_EMUL_H
#define VERIF_CUDA_EMUL_H
#include <stddef.h>
#include <stdlib.h>
#include <string.h>
#ifdef __cplusplus
#include <algorithm>   // the CUDA headers make std::min / std::max available to host code
#endif
struct verif_dim3 { unsigned x, y, z; };
extern verif_dim3 blockIdx, blockDim, threadIdx, gridDim;
typedef int cudaStream_t;
typedef int cudaError_t;
#define cudaSuccess 0
enum cudaMemcpyKind { cudaMemcpyHostToHost, cudaMemcpyHostToDevice, cudaMemcpyDeviceToHost, cudaMemcpyDeviceToDevice };
cudaError_t cudaMalloc(void **p, size_t n);
cudaError_t cudaFree(void *p);
cudaError_t cudaMemcpyAsync(void *dst, const void *src, size_t n, cudaMemcpyKind kind, cudaStream_t s);
cudaError_t cudaMemcpy(void *dst, const void *src, size_t n, cudaMemcpyKind kind);
cudaError_t cudaDeviceSynchronize();
cudaError_t cudaMallocHost(void **p, size_t n);
cudaError_t cudaFreeHost(void *p);
cudaError_t cudaStreamCreate(cudaStream_t *s);
cudaError_t cudaStreamDestroy(cudaStream_t s);
extern int verif_live_streams, verif_live_handles, verif_live_hostbufs;
cudaError_t cudaGetLastError();
const char *cudaGetErrorName(cudaError_t e);
// launch emulation: every (block, thread) pair of the launch runs the kernel sequentially
void verif_launch_begin(size_t grid, size_t block, size_t shmem, cudaStream_t stream);
bool verif_launch_more();
void verif_launch_next();
extern long verif_kernel_threads;   // total emulated threads run
// nvcc implicitly includes cuda_runtime.h, whose math API declares min/max for these types
static inline double min(double a, double b) { return a < b ? a : b; }
static inline double max(double a, double b) { return a > b ? a : b; }
static inline int min(int a, int b) { return a < b ? a : b; }
static inline int max(int a, int b) { return a > b ? a : b; }
#endif
