"""pytest plugin: run the repository's own tests with the /verif contracts switched on
(`pytest -p verif.contracts_plugin`).  Broken invariants are recorded, not raised, and written to
$VERIF_CONTRACT_LOG so that the check can read the witness."""
import json
import os


def pytest_configure(config):
    from verif import contracts
    contracts.install(record_only=True)


def pytest_sessionfinish(session, exitstatus):
    from verif import contracts
    path = os.environ.get("VERIF_CONTRACT_LOG")
    if path:
        with open(path, "w") as f:
            json.dump({"counts": dict(contracts.COUNTS), "broken": contracts.BROKEN[:50]}, f)
