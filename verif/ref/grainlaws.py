"""Independent implementation of the dust-model rate formulae.

hh93 / hh93i : Hasegawa, Herbst & Leung 1992; Hasegawa & Herbst 1993 (as used by Walsh et al. 2015)
rr07 / rr07x : Roberts et al. 2007 as implemented in UCLCHEM v1.3 (Holdship et al. 2017)

env holds: NaunetData parameters (as set by the harness), physical constants and eb_<alias>
read from the *compiled* library, and y-derived inputs (mant, gdens).  Species data (mass number,
binding energy, yield, charge) come from the generator's abstract species.
"""
from __future__ import annotations

import numpy as np

np.seterr(all="ignore")
f8 = np.float64


def hh93_derived(env):
    e = {k: f8(v) for k, v in env.items() if isinstance(v, (int, float))}
    pi = e["pi"]
    d = {}
    d["garea"] = (f8(4.0) * pi * e["rG"] * e["rG"]) * e["gdens"]
    d["unisites"] = e["sites"] * (f8(4) * pi * e["rG"] * e["rG"])
    d["densites"] = d["garea"] * e["sites"]
    d["freq"] = np.sqrt((f8(2.0) * e["sites"] * e["kerg"]) / ((pi * pi) * e["amu"]))
    d["quan"] = f8(-2.0) * (e["barr"] / e["hbar"]) * np.sqrt(f8(2.0) * e["amu"] * e["kerg"])
    d["layers"] = e["mant"] / (e["nMono"] * d["densites"])
    d["cov"] = f8(0.0) if e["mant"] == 0.0 else min(d["layers"] / e["mant"], f8(1.0) / e["mant"])
    return e, d


def hh93(kind, r, sp, env):
    """kind in freeze, thermal, photon, cosmicray, ecapture, recombine, surface, reactive"""
    e, d = hh93_derived(env)
    pi = e["pi"]
    a = f8(r["alpha"])
    if kind == "freeze":
        return e["opt_frz"] * a * pi * e["rG"] * e["rG"] * e["gdens"] * np.sqrt(f8(8.0) * e["kerg"] * e["Tgas"] / (pi * e["amu"] * f8(sp["A"])))
    if kind == "thermal":
        eb = f8(sp["eb"])
        return e["opt_thd"] * d["cov"] * e["nMono"] * d["densites"] * np.sqrt(f8(2.0) * e["sites"] * e["kerg"] * eb / (pi * pi * e["amu"] * f8(sp["A"]))) * np.exp(-eb / e["Tdust"])
    if kind == "photon":
        phot = e["G0"] * e["habing"] * np.exp(-e["Av"] * f8(3.02)) + e["crphot"] * (e["zeta_cr"] / e["zism"])
        return e["opt_uvd"] * d["cov"] * phot * f8(sp["yield"] or 1e-3) * e["nMono"] * d["garea"]
    if kind == "cosmicray":
        eb = f8(sp["eb"])
        return e["opt_crd"] * d["cov"] * e["duty"] * e["nMono"] * d["densites"] * (e["zeta_cr"] / e["zism"]) * \
            np.sqrt(f8(2.0) * e["sites"] * e["kerg"] * eb / (pi * pi * e["amu"] * f8(sp["A"]))) * np.exp(-eb / e["Tcr"])
    if kind == "ecapture":
        return pi * e["rG"] * e["rG"] * np.sqrt(f8(8.0) * e["kerg"] * e["Tgas"] / pi / e["amu"] / e["meu"])
    if kind == "recombine":
        q2 = e["echarge"] ** 2
        return a * pi * e["rG"] * e["rG"] * e["gdens"] * np.sqrt(f8(8.0) * e["kerg"] * e["Tgas"] / (pi * e["amu"] * f8(sp["A"]))) * \
            (f8(1.0) + q2 / e["rG"] / e["kerg"] / e["Tgas"]) * (f8(1.0) + np.sqrt(f8(2.0) * q2 / (e["rG"] * e["kerg"] * e["Tgas"] + f8(2.0) * q2)))
    if kind in ("surface", "reactive"):
        s1, s2 = sp
        eb1, m1, eb2, m2 = f8(s1["eb"]), f8(s1["A"]), f8(s2["eb"]), f8(s2["A"])
        hop, Td = e["hop"], e["Tdust"]
        afreq = d["freq"] * np.sqrt(eb1 / m1)
        adiff = afreq * np.exp(-eb1 * hop / Td) / d["unisites"]
        aquan = afreq * np.exp(d["quan"] * np.sqrt(hop * m1 * eb1)) / d["unisites"]
        bfreq = d["freq"] * np.sqrt(eb2 / m2)
        bdiff = bfreq * np.exp(-eb2 * hop / Td) / d["unisites"]
        bquan = bfreq * np.exp(d["quan"] * np.sqrt(hop * m2 * eb2)) / d["unisites"]
        kappa = np.exp(-a / Td)
        kquan = np.exp(d["quan"] * np.sqrt(((m1 * m2) / (m1 + m2)) * a))
        light = ("GH", "GH2")
        tail = (e["nMono"] * d["densites"]) ** 2 / e["gdens"]
        if s1["name"] in light and s2["name"] in light:
            v = max(kappa, kquan) * (max(adiff, aquan) + max(bdiff, bquan)) * tail
        elif s1["name"] in light:
            v = max(kappa, kquan) * (max(adiff, aquan) + bdiff) * tail
        elif s2["name"] in light:
            v = max(kappa, kquan) * (adiff + max(bdiff, bquan)) * tail
        else:
            v = kappa * (adiff + bdiff) * tail
        v = v * d["cov"] * d["cov"]
        if kind == "reactive":
            v = e["opt_rcd"] * e["branch"] * v
        return v
    raise KeyError(kind)


def rr07(kind, r, sp, env):
    """kind in freeze, photon, cosmicray, h2, thermal (rr07x only)"""
    e = {k: f8(v) for k, v in env.items() if isinstance(v, (int, float))}
    pi = e["pi"]
    a = f8(r["alpha"])
    gxsec = (pi * e["rG"] * e["rG"]) * e["gdens"]
    garea = f8(4.0) * gxsec
    densites = garea * e["sites"]
    mantabund = e["mant"] / e["nH"]
    if kind == "freeze":
        if sp["electron"]:
            return f8(4.57e4) * a * gxsec * e["fr"] * (f8(1.0) + f8(16.71e-4) / (e["rG"] * e["Tgas"]))
        v = f8(4.57e4) * a * gxsec * e["fr"] * np.sqrt(e["Tgas"] / f8(sp["A"]))
        if sp["charge"] != 0:
            v = v * (f8(1.0) + f8(16.71e-4) / (e["rG"] * e["Tgas"]))
        return v
    if not (mantabund > 1e-30):
        return f8(0.0)
    eb = f8(sp["eb"])
    if kind == "photon":
        if not (e["eb_uvd"] >= eb):
            return f8(0.0)
        phot = (e["zeta"] / e["zism"]) + (e["G0"] / e["uvcreff"]) * np.exp(f8(-1.8) * e["Av"])
        return e["opt_uvd"] * f8(4.875e3) * gxsec * phot * f8(sp["yield"] or 0.1) / e["mant"]
    if kind == "cosmicray":
        if not (e["eb_crd"] >= eb):
            return f8(0.0)
        return e["opt_crd"] * f8(4.0) * pi * e["crdeseff"] * (e["zeta"] / e["zism"]) * f8(1.64e-4) * gxsec / e["mant"]
    if kind == "h2":
        if not (e["eb_h2d"] >= eb):
            return f8(0.0)
        h2form = f8(1.0e-17) * np.sqrt(e["Tgas"]) * e["nH"]
        return e["opt_h2d"] * e["h2deseff"] * h2form * e["yH"] / e["mant"]
    if kind == "thermal":
        return e["opt_thd"] * np.sqrt(f8(2.0) * e["sites"] * e["kerg"] * eb / (pi * pi * e["amu"] * f8(sp["A"]))) * f8(2.0) * densites * np.exp(-eb / e["Tgas"])
    raise KeyError(kind)
