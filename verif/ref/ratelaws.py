"""Independent implementation of the gas-phase rate laws as published by each database.

KIDA      Wakelam et al. 2012 (ApJS 199, 21), kida.uva readme: formulae 1-5
RATE12    McElroy et al. 2013 (A&A 550, A36): two-body, CP, CR (CRPHOT), PH
Leeds     Walsh et al. 2015 (A&A 582, A88) gas-phase types
UCLCHEM   Holdship et al. 2017 (AJ 154, 38), v1.3 rate routines
naunet    native types, README

IEEE semantics (inf/nan instead of exceptions) through numpy.  Every law returns
(value, scale) where scale = sum of |terms| (for cancellation-robust comparison).
"""
from __future__ import annotations

import numpy as np

np.seterr(all="ignore")
f8 = np.float64


def _kooij(a, b, c, T):
    a, b, c, T = f8(a), f8(b), f8(c), f8(T)
    v = a
    if b != 0:
        v = v * np.power(T / f8(300.0), b)
    if c != 0:
        v = v * np.exp(-c / T)
    return v


def kooij(a, b, c, p):
    v = _kooij(a, b, c, p["Tgas"])
    return float(v), abs(float(v))


def ionpol1(a, b, c, p):
    a, b, c, T = f8(a), f8(b), f8(c), f8(p["Tgas"])
    t2 = f8(0.4767) * c * np.sqrt(f8(300.0) / T)
    v = a * b * (f8(0.62) + t2)
    return float(v), float(abs(a * b) * (f8(0.62) + abs(t2)))


def ionpol2(a, b, c, p):
    a, b, c, T = f8(a), f8(b), f8(c), f8(p["Tgas"])
    t2 = f8(0.0967) * c * np.sqrt(f8(300.0) / T)
    t3 = c * c * (f8(300.0) / T) / f8(10.526)
    v = a * b * (f8(1.0) + t2 + t3)
    return float(v), float(abs(a * b) * (f8(1.0) + abs(t2) + abs(t3)))


def photo(a, c, Av, pref=1.0):
    v = f8(pref) * f8(a) * np.exp(-f8(c) * f8(Av))
    return float(v), abs(float(v))


def crphot(a, b, c, T, omega, zfac=1.0):
    v = f8(a) * f8(zfac) * np.power(f8(T) / f8(300.0), f8(b)) * f8(c) / (f8(1.0) - f8(omega))
    return float(v), abs(float(v))


ZISM = 1.3e-17


def law(fmt: str, r: dict, p: dict):
    """(value, scale) of reaction r under physical parameters p; None if the law needs a helper (shielding)."""
    a, b, c = r["alpha"], r["beta"], r["gamma"]
    T = p["Tgas"]
    if fmt == "kida":
        f = r["formula"]
        if f == 1:
            v = f8(a) * f8(p["zeta"])
            return float(v), abs(float(v))
        if f == 2:
            return photo(a, c, p["Av"])
        if f == 3:
            return kooij(a, b, c, p)
        if f == 4:
            return ionpol1(a, b, c, p)
        if f == 5:
            return ionpol2(a, b, c, p)
    if fmt == "umist":
        code = r["code"]
        if code == "CP":
            return float(a), abs(float(a))
        if code == "CR":
            return crphot(a, b, c, T, p["omega"])
        if code == "PH":
            return photo(a, c, p["Av"])
        return kooij(a, b, c, p)
    if fmt == "leeds":
        t = r["rtype"]
        zfac = (f8(p["zeta_cr"]) + f8(p["zeta_xr"])) / f8(ZISM)
        if t == 1:
            return kooij(a, b, c, p)
        if t == 2:
            v = f8(a) * (f8(p["zeta_cr"]) + f8(p["zeta_xr"])) / f8(ZISM)
            return float(v), abs(float(v))
        if t in (3, 11):
            return crphot(a, b, c, T, p["omega"], zfac)
        if t in (4, 12):
            v, s = photo(a, c, p["Av"], p["G0"])
            return v, s
        if t == 5 or 15 <= t <= 19:
            return 0.0, 0.0
    if fmt == "uclchem":
        m = r.get("marker")
        zfac = f8(p["zeta"]) / f8(ZISM)
        if m is None:
            return kooij(a, b, c, p)
        if m == "CRP":
            v = f8(a) * zfac
            return float(v), abs(float(v))
        if m == "CRPHOT":
            return crphot(a, b, c, T, p["omega"], zfac)
        if m == "PHOTON":
            v = f8(p["G0"]) * f8(a) * np.exp(-f8(c) * f8(p["Av"])) / f8(1.7)
            return float(v), abs(float(v))
    if fmt == "naunet":
        t = r["type"]
        if t == 100:
            return kooij(a, b, c, p)
        if t == 101:
            v = f8(a) * f8(p["zeta"])
            return float(v), abs(float(v))
        if t == 102:
            return photo(a, c, p["Av"])
        if t == 110:
            return ionpol1(a, b, c, p)
        if t == 111:
            return ionpol2(a, b, c, p)
        if t == 120:
            return crphot(a, b, c, T, p["omega"])
    raise KeyError((fmt, r))
