"""Shared plumbing of the /verif checks: seeds, case ids, scratch dirs, verdicts, evidence."""
from __future__ import annotations

import hashlib
import json
import math
import os
import random
import shutil
import sys
import time
from pathlib import Path

ROOT = Path(__file__).resolve().parent.parent          # /verif (checkout-relative)
REPO = Path(os.environ.get("VERIF_REPO") or "/repo")
PY = os.environ.get("VERIF_PYTHON", "/venv/bin/python")
DEPS = ROOT / ".deps"
WORK = ROOT / ".work"
EVIDENCE = ROOT / "evidence"
REPLAY = ROOT / "replay"
NCPU = int(os.environ.get("VERIF_NPROC", "16"))


def seed() -> int:
    try:
        return int(os.environ.get("VERIF_SEED", "0"))
    except ValueError:
        return 0


def rng_for(prop: str, extra: str = "") -> random.Random:
    return random.Random(f"{prop}:{seed()}:{extra}")


def canon(obj) -> str:
    return json.dumps(obj, sort_keys=True, separators=(",", ":"), default=str)


def case_id(obj) -> str:
    return hashlib.sha1(canon(obj).encode()).hexdigest()[:16]


def jsonable(x):
    """Make floats JSON-safe (NaN/Inf -> strings) for evidence/replay files."""
    if isinstance(x, float):
        if math.isnan(x):
            return "nan"
        if math.isinf(x):
            return "inf" if x > 0 else "-inf"
        return x
    if isinstance(x, dict):
        return {str(k): jsonable(v) for k, v in x.items()}
    if isinstance(x, (list, tuple, set)):
        return [jsonable(v) for v in x]
    if isinstance(x, Path):
        return str(x)
    return x


class Scratch:
    """/verif/.work/<tag>-<pid>/, removed on exit (also on failure)."""

    def __init__(self, tag: str):
        self.path = WORK / f"{tag}-{os.getpid()}"

    def __enter__(self) -> Path:
        if self.path.exists():
            shutil.rmtree(self.path, ignore_errors=True)
        self.path.mkdir(parents=True)
        return self.path

    def __exit__(self, *exc):
        if not os.environ.get("VERIF_KEEP"):
            shutil.rmtree(self.path, ignore_errors=True)
        return False


# ------------------------------------------------------------------ numeric comparison

def close(obs: float, ref: float, scale: float = None, rel: float = 1e-12, abs_: float = 1e-300) -> bool:
    """|obs-ref| <= rel*scale + abs_, with nan==nan and inf==inf of the same sign."""
    if isinstance(obs, str) or isinstance(ref, str):
        return str(obs) == str(ref)
    if math.isnan(ref) or math.isnan(obs):
        return math.isnan(ref) and math.isnan(obs)
    if math.isinf(ref) or math.isinf(obs):
        return obs == ref
    if scale is None:
        scale = max(abs(obs), abs(ref))
    return abs(obs - ref) <= rel * scale + abs_


def violation(kind: str, detail: str, **witness) -> dict:
    return {"kind": kind, "detail": detail, "witness": jsonable(witness)}


class Timer:
    def __init__(self):
        self.t0 = time.time()

    def s(self) -> float:
        return round(time.time() - self.t0, 3)


def eprint(*a):
    print(*a, file=sys.stderr, flush=True)
