"""Per-batch worker process: runs the real naunet on each case of a batch and appends one JSON
result line per case (so a crash or timeout loses only the unfinished cases)."""
from __future__ import annotations

import importlib
import json
import logging
import os
import sys
import traceback
from pathlib import Path


class Ctx:
    def __init__(self, work: Path, tier: str, cache: Path):
        self.work = work
        self.tier = tier
        self.cache = cache
        self._n = 0

    def fresh_dir(self, tag="c") -> Path:
        self._n += 1
        d = self.work / f"{tag}{self._n}"
        d.mkdir(parents=True, exist_ok=True)
        return d


def quiet():
    logging.disable(logging.CRITICAL)
    os.environ.setdefault("TQDM_DISABLE", "1")
    try:
        import tqdm
        from functools import partialmethod
        tqdm.tqdm.__init__ = partialmethod(tqdm.tqdm.__init__, disable=True)
    except Exception:
        pass


def main():
    prop, bfile, ofile, wdir, tier, cache = sys.argv[1:7]
    quiet()
    mod = importlib.import_module(f"verif.props.{prop.lower()}")
    batch = json.loads(Path(bfile).read_text())
    ctx = Ctx(Path(wdir), tier, Path(cache))
    # silence naunet's print() of every rendered path
    devnull = open(os.devnull, "w")
    real_stdout = sys.stdout
    with open(ofile, "a") as out:
        for case in batch:
            sys.stdout = devnull
            try:
                res = mod.run_case(case, ctx)
            except Exception as e:  # a crash of the harness, not of naunet: inconclusive
                res = {"status": "inconclusive", "violations": [], "obs": {}, "lost": "harness_exception",
                       "error": traceback.format_exc()[-3000:]}
            finally:
                sys.stdout = real_stdout
            res.setdefault("violations", [])
            res.setdefault("obs", {})
            res["case_id"] = case.get("case_id")
            out.write(json.dumps(res, default=str) + "\n")
            out.flush()
    return 0


if __name__ == "__main__":
    sys.exit(main())
