"""C19 - Solve integrates exactly the requested interval or reports failure.

Deciding step: the real generated naunet.cpp (cvode dense and sparse, a small network and the
empty network; odeint) is linked with a *scripted mock integrator* whose solution is
y(t) = y(tn) + (t - tn) in every component, so the final state measures integrated time.  The
scripts enumerate integrator outcomes (success, recoverable flags -1..-4, reset flag -6,
unrecoverable flags, warnings, failing re-initialisation) at every call position of the recovery
ladder with partial progress before each failure; a monitor checks, per run,
  success  =>  every component advanced by exactly dt  and the last integrator call succeeded
  failure  =>  the initial state is in the error record
and, for odeint, steps > mxsteps => failure.  ASan watches ab_tmp_/ab_init_ and the solver objects.
"""
from __future__ import annotations

import itertools
import random
from collections import Counter

from .. import common
from ..common import violation
from ..cxx import lab
from ..gen import chem
from . import structural as S

ID = "C19"
LEVEL = "fault_enumeration"
BATCH = 1
TIMEOUT = 900
REQUIRED_OBS = ["scripts_run", "success_runs_checked", "failure_runs_checked", "recovered_after_failure", "odeint_runs",
                "ladder_level_2_reached", "thermal_network_scripts", "reinit_failure_reached", "cusparse_runs", "cusparse_failing_outcomes"]
RULE = ("fault scripts for the mock CVODE: first call in {ok, warning +1/+99, fail(flag, frac)}, then per recovery level "
        "{all ok, fail at sub-step s in {1, middle, last} with (flag, frac)}, flags {-1,-2,-3,-4,-6,-5,-7,-8,-22}, frac in "
        "{0, 0.37, 1-2^-52, 1}, optional failing CVodeReInit; exhaustive to depth 1 (quick) / 2 (thorough) plus random scripts "
        "to depth 6; dt in {1e-3, 1, 3.15e7, 1e15}; odeint: steps vs mxsteps around the budget and integrator exceptions; "
        "non-trivial = at least one failing call; distinct by script text")
ASSUMPTIONS = [
    "CVODE / Boost.Odeint are replaced by scripted mocks that follow the documented return protocol "
    "(failed CVode returns the time reached in *tret with yout = y(tret); Odeint calls the observer before every step and at the end)",
    "the mock solution is linear in t, so integrated time is read off the state; tolerance 1e-9*dt",
]

FLAGS_REC = [-1, -2, -3, -4]
FLAGS_ALL = [-1, -2, -3, -4, -6, -5, -7, -8, -22]
FRACS = [0.0, 0.37, 1.0 - 2.0 ** -52, 1.0]
DTS = [1e-3, 1.0, 3.15e7, 1e15]


def level_options(level, rich=True):
    ns = 10 * level
    opts = [None]  # None = all sub-steps succeed
    subs = sorted({1, ns // 2, ns})
    flags = FLAGS_ALL if rich else [-1, -4, -6, -5]
    fracs = FRACS if rich else [0.0, 0.37]
    for s in subs:
        for f in flags:
            for fr in fracs:
                opts.append((s, f, fr))
    return opts


def flatten(first, levels):
    """-> (list of (flag, frac) consumed by successive CVode calls)."""
    seq = []
    if first is not None:
        seq.append(first)
    else:
        seq.append((0, 1.0))
    for lv in levels:
        if lv is None:
            break
        s, f, fr = lv
        seq += [(0, 1.0)] * (s - 1) + [(f, fr)]
    return seq


def make_scripts(rng, tier):
    scripts = []
    firsts = [None, (1, 1.0), (99, 1.0)] + [(f, fr) for f in FLAGS_ALL for fr in FRACS]
    # depth 1: first x level-1 outcome (exhaustive)
    for first in firsts:
        if first is None or first[0] >= 0:
            scripts.append({"first": first, "levels": [], "reinit": []})
            continue
        for l1 in level_options(1):
            scripts.append({"first": first, "levels": [l1], "reinit": []})
    # depth 2
    if tier == "thorough":
        for first in [(f, fr) for f in [-1, -3, -6] for fr in [0.0, 0.37]]:
            for l1 in level_options(1, rich=False)[1:]:
                for l2 in level_options(2, rich=True):
                    scripts.append({"first": first, "levels": [l1, l2], "reinit": []})
    else:
        for first in [(-1, 0.37), (-6, 0.0)]:
            for l1 in [(1, -2, 0.37), (5, -6, 0.0), (10, -4, 1.0 - 2.0 ** -52)]:
                for l2 in level_options(2, rich=False):
                    scripts.append({"first": first, "levels": [l1, l2], "reinit": []})
    # random deep scripts incl. five failing levels and failing re-initialisation
    n_rand = 1500 if tier == "quick" else 60000
    for _ in range(n_rand):
        first = (rng.choice(FLAGS_REC + [-6]), rng.choice(FRACS + [rng.random()]))
        depth = rng.randint(1, 6)
        levels = []
        for lv in range(1, min(depth, 5) + 1):
            ns = 10 * lv
            last = (lv == depth)
            if last and rng.random() < 0.6:
                levels.append(None)
                break
            flag = rng.choice(FLAGS_REC + [-6]) if rng.random() < 0.85 else rng.choice([-5, -7, -22])
            levels.append((rng.randint(1, ns), flag, rng.choice(FRACS + [rng.random()])))
        reinit = []
        if rng.random() < 0.1:
            reinit = [0] * rng.randint(0, 3) + [rng.choice([-22, -21, -1])]
        scripts.append({"first": first, "levels": levels, "reinit": reinit})
    # failing re-initialisation at each of the first three recovery levels, after every recoverable first failure
    for first in [(f, fr) for f in FLAGS_REC + [-6] for fr in FRACS]:
        scripts.append({"first": first, "levels": [], "reinit": [rng.choice([-22, -21])]})
    for first in [(-1, 0.0), (-3, 0.37), (-6, 0.0)]:
        scripts.append({"first": first, "levels": [(3, -2, 0.0)], "reinit": [0, -22]})
        scripts.append({"first": first, "levels": [(3, -2, 0.0), (7, -4, 0.0)], "reinit": [0, 0, -21]})
    # five failing levels with recoverable flags (ladder exhausted)
    for f in (-1, -4, -6):
        scripts.append({"first": (f, 0.5), "levels": [(3 * lv, f, 0.25) for lv in range(1, 6)], "reinit": []})
    for sc in scripts:
        sc["dt"] = rng.choice(DTS)
    return scripts


def gen_cases(tier):
    rng = common.rng_for(ID)
    scripts = make_scripts(rng, tier)
    rng.shuffle(scripts)
    nb = 12 if tier == "quick" else 30
    cases = []
    targets = [("dense", "small"), ("sparse", "small"), ("dense", "empty"), ("sparse", "thermal"), ("dense", "thermal"), ("sparse", "small")]
    for b in range(nb):
        be, netk = targets[b % len(targets)]
        cases.append({"kind": "cvode", "backend": be, "net": netk, "scripts": scripts[b::nb], "y0": [0.0, 1.0][b % 2]})
    # odeint: steps around the budget, exceptions
    od = []
    for mx in (1, 2, 5, 50, 500):
        for n in sorted({1, max(1, mx - 2), max(1, mx - 1), mx, mx + 1, mx + 2, 3 * mx}):
            od.append({"mxsteps": mx, "nsteps": n, "throw_at": -1})
        for th in sorted({0, max(0, mx // 2), max(0, mx - 1)}):
            od.append({"mxsteps": mx, "nsteps": mx + 3, "throw_at": th})
            od.append({"mxsteps": mx, "nsteps": max(1, mx - 1), "throw_at": min(th, max(0, mx - 2))})
    for _ in range(200 if tier == "quick" else 5000):
        mx = rng.choice([1, 3, 10, 100, 500])
        od.append({"mxsteps": mx, "nsteps": rng.randint(1, 2 * mx + 2), "throw_at": rng.choice([-1, -1, -1, rng.randint(0, 2 * mx)])})
    # stalled steps: accepted steps that do not advance the time the observer sees still count against the budget
    for mx in (2, 5, 50):
        for n, st in ((mx + 3, mx), (mx + 1, 1), (2 * mx + 2, mx + 1), (mx, max(1, mx - 2)), (max(2, mx - 1), 1)):
            od.append({"mxsteps": mx, "nsteps": n, "throw_at": -1, "stall": min(st, n - 1)})
    for _ in range(60 if tier == "quick" else 2000):
        mx = rng.choice([3, 10, 100])
        n = rng.randint(2, 2 * mx + 2)
        od.append({"mxsteps": mx, "nsteps": n, "throw_at": -1, "stall": rng.randint(1, n - 1)})
    for o in od:
        o["dt"] = rng.choice(DTS)
    # cusparse method (CPU emulation of the CUDA surface): one CVode call per stream, no recovery ladder - every failing outcome
    # must come back as failure with the initial state logged, every non-negative one as success over exactly dt
    cu = []
    for f in [0, 1, 99] + FLAGS_ALL:
        for fr in FRACS:
            cu.append({"flag": f, "frac": fr if f < 0 else 1.0})
    for _ in range(60 if tier == "quick" else 2000):
        f = rng.choice([0, 1, 99] + FLAGS_ALL)
        cu.append({"flag": f, "frac": rng.random() if f < 0 else 1.0})
    for o in cu:
        o["dt"] = rng.choice(DTS)
        o["nsystem"] = rng.choice([1, 2, 3, 8, 40])
    cases.append({"kind": "cusparse", "net": "small", "scripts": cu[0::2], "y0": 0.0})
    cases.append({"kind": "cusparse", "net": "thermal", "scripts": cu[1::2], "y0": 1.0})
    cases.append({"kind": "odeint", "net": "small", "scripts": od[0::2], "y0": 0.0})
    cases.append({"kind": "odeint", "net": "empty", "scripts": od[1::2], "y0": 1.0})
    return cases


SMALL = {"species": [chem.make_species([("H", 1)]), chem.make_species([("H", 2)]), chem.make_species([("He", 1)])],
         "reactions": [{"reactants": ["H", "H"], "products": ["H2"], "pseudo": None, "idx": 1},
                       {"reactants": ["H2"], "products": ["H", "H"], "pseudo": "CR", "idx": 2}],
         "required": ["He"]}
EMPTY = {"species": [], "reactions": [], "required": []}
# NEQUATIONS = NSPECIES + 1: the temperature equation must be saved / restored by the ladder like any other component
THERMAL = {"species": [chem.make_species([("H", 1)]), chem.make_species([("H", 1)], charge=1), chem.make_species([], electron="e-")],
           "reactions": [{"reactants": ["H+", "e-"], "products": ["H"], "pseudo": None, "idx": 1}], "required": []}


def run_cusparse(case, ctx):
    obs, viol = Counter(), []
    work = ctx.fresh_dir("c19cu")
    netd = {"small": SMALL, "thermal": THERMAL}[case["net"]]
    ncase = {"net": netd, "alphas": [1.5, 0.25][:len(netd["reactions"])], "entry": "api"}
    if case["net"] == "thermal":
        ncase["cooling"] = ["CIC_HI", "RC_HII"]
    try:
        net = S.build_network(ncase, work)
        proj = S.render(net, "cusparse", work / "proj")
        b = lab.build_cusparse(proj, work / "b", ctx.cache, seams=True, with_naunet=True)
    except lab.BuildError as e:
        return {"status": "violated", "violations": [violation("emitted_code_does_not_compile", f"cusparse {e.unit}: {'; '.join(e.diagnostics()[:3])}")], "obs": {}}
    except Exception as e:
        return {"status": "violated", "violations": [violation("generator_or_run_failure", f"{type(e).__name__}: {e}")], "obs": {}}
    n_eq = lab.run_driver(b["exe"], ["info"], work / "b", leaks=False).by_ev("info")[0]["NEQUATIONS"]
    cmds, y0s = [], []
    for sc in case["scripts"]:
        ns = sc["nsystem"]
        y0 = [case["y0"] + 1.0 + 0.125 * i + 0.5 * s for s in range(ns) for i in range(n_eq)]
        y0s.append(y0)
        cmds += [f"nsys {ns} 2", "set -1 nH 100", "set -1 Tgas 50", "y " + " ".join(lab.fmt(v) for v in y0),
                 f"script 1 {sc['flag']} {lab.fmt(sc['frac'])}", f"solve {lab.fmt(sc['dt'])}"]
    # the generated Finalize of this method never frees its execution policies / vector contents: leak reports are not judged here
    rr = lab.run_driver(b["exe"], cmds, work / "b", timeout=800, leaks=False)
    if rr.sanitizer_reports:
        viol.append(violation("sanitizer_report", rr.sanitizer_reports[0][:300], stderr=rr.stderr[-1500:]))
    solves = rr.by_ev("solve")
    if len(solves) != len(case["scripts"]):
        viol.append(violation("driver_crash", f"{len(solves)} of {len(case['scripts'])} cusparse solves completed", stderr=rr.stderr[-1500:]))
    for sc, ev, y0 in zip(case["scripts"], solves, y0s):
        obs["scripts_run"] += 1
        obs["cusparse_runs"] += 1
        dt = sc["dt"]
        adv = [a - b0 for a, b0 in zip(ev["ab"], y0)]
        tol = 1e-9 * dt + 4e-16 * (max(map(abs, y0)) + dt)
        exact = all(abs(a - dt) <= tol for a in adv)
        failing = sc["flag"] < 0 and ev["cvode_calls"] >= 1
        if failing:
            obs["cusparse_failing_outcomes"] += 1
        if ev["ret"] == 0:
            obs["success_runs_checked"] += 1
            if failing:
                viol.append(violation("success_after_failed_call", f"cusparse/{case['net']}: Solve returned success although CVode returned {sc['flag']} after "
                                      f"{sc['frac']:.3g} of the interval (state advanced by {adv[:3]} of dt={dt!r})", script=sc,
                                      mechanism="C19/cusparse-solve-ignores-cvode-flag"))
            elif not exact:
                viol.append(violation("success_but_wrong_interval", f"cusparse/{case['net']}: success, dt={dt!r}, advanced {adv[:3]}", script=sc))
        else:
            obs["failure_runs_checked"] += 1
            ylog = ev["y_logged"]
            ok = len(ylog) >= len(y0) and all(abs(a - b0) <= 1e-6 * max(1.0, abs(b0)) for a, b0 in zip(ylog, y0))
            if not failing:
                viol.append(violation("failure_without_fault", f"cusparse: failure although CVode returned {sc['flag']}", script=sc))
            elif not ok or not ev["logged_unrecoverable"]:
                viol.append(violation("failure_without_initial_state", f"cusparse: failure but the error record holds y={ylog[:4]} (initial {y0[:4]})", script=sc))
    sample = {"target": f"cusparse/{case['net']}", "scripts": len(case["scripts"]), "example_script": case["scripts"][0] if case["scripts"] else None}
    return {"status": "violated" if viol else "held", "violations": viol[:10], "obs": dict(obs), "nontrivial": True, "sample": sample}


def run_case(case, ctx):
    if case["kind"] == "cusparse":
        return run_cusparse(case, ctx)
    obs, viol = Counter(), []
    work = ctx.fresh_dir("c19")
    netd = {"small": SMALL, "empty": EMPTY, "thermal": THERMAL}[case["net"]]
    ncase = {"net": netd, "alphas": [1.5, 0.25][:len(netd["reactions"])], "entry": "api"}
    if case["net"] == "thermal":
        ncase["cooling"] = ["CIC_HI", "RC_HII"]
    try:
        net = S.build_network(ncase, work)
        be = case.get("backend", "odeint") if case["kind"] == "cvode" else "odeint"
        proj = S.render(net, be, work / "proj")
        if case["kind"] == "cvode":
            b = lab.build_cvode(proj, work / "b", be, ctx.cache, seams=True)
        else:
            b = lab.build_odeint(proj, work / "b", ctx.cache)
    except lab.BuildError as e:
        return {"status": "violated", "violations": [violation("emitted_code_does_not_compile", f"{e.unit}: {'; '.join(e.diagnostics()[:3])}")], "obs": {}}
    except Exception as e:
        return {"status": "violated", "violations": [violation("generator_or_run_failure", f"{type(e).__name__}: {e}")], "obs": {}}
    r0 = lab.run_driver(b["exe"], ["info"], work / "b")
    n_eq = r0.by_ev("info")[0]["NEQUATIONS"]
    y0 = [case["y0"] + 0.125 * i for i in range(n_eq)]
    if case["net"] == "thermal":
        y0 = [case["y0"] + 1.0 + 0.125 * i for i in range(n_eq)]       # positive abundances / temperature: the real Fex divides by the particle density
    cmds = ["set nH 100", "set Tgas 50", "y " + " ".join(lab.fmt(v) for v in y0)]
    scripts = case["scripts"]
    for sc in scripts:
        if case["kind"] == "cvode":
            seq = flatten(sc["first"], sc["levels"])
            cmds.append(f"script {len(seq)} " + " ".join(f"{f} {lab.fmt(fr)}" for f, fr in seq) + " " + " ".join(str(x) for x in sc["reinit"]))
            cmds.append(f"solve {lab.fmt(sc['dt'])} 0")
        else:
            cmds.append(f"steps {sc['nsteps']} {sc['throw_at']} {sc.get('stall', 0)}")
            cmds.append(f"solve {lab.fmt(sc['dt'])} {sc['mxsteps']}")
    rr = lab.run_driver(b["exe"], cmds, work / "b", timeout=800)
    if rr.sanitizer_reports:
        obs["sanitizer_reports"] += len(rr.sanitizer_reports)
        viol.append(violation("sanitizer_report", rr.sanitizer_reports[0][:300], stderr=rr.stderr[-1500:]))
    solves = rr.by_ev("solve")
    if len(solves) != len(scripts):
        viol.append(violation("driver_crash", f"{len(solves)} of {len(scripts)} solves completed", stderr=rr.stderr[-1500:]))
    nontrivial = False
    for sc, ev in zip(scripts, solves):
        obs["scripts_run"] += 1
        if case["net"] == "thermal":
            obs["thermal_network_scripts"] += 1
        dt = sc["dt"]
        adv = [a - b0 for a, b0 in zip(ev["ab"], y0)]
        tol = 1e-9 * dt + 4e-16 * (abs(case["y0"]) + n_eq + dt)
        exact = all(abs(a - dt) <= tol for a in adv)
        if case["kind"] == "cvode":
            failing = (sc["first"] is not None and sc["first"][0] < 0)
            nontrivial = nontrivial or failing
            if failing:
                obs["scripts_with_failure"] += 1
            if len(sc["levels"]) >= 2:
                obs["ladder_level_2_reached"] += 1
            if len(sc["levels"]) >= 5:
                obs["ladder_level_5_reached"] += 1
            if sc["reinit"]:
                obs["scripts_with_reinit_failure"] += 1
                if ev["reinit_calls"] >= len(sc["reinit"]):
                    obs["reinit_failure_reached"] += 1
            if ev["ret"] == 0:
                obs["success_runs_checked"] += 1
                if failing:
                    obs["recovered_after_failure"] += 1
                if not exact:
                    viol.append(violation("success_but_wrong_interval", f"{case['backend']}/{case['net']}: Solve returned success, dt={dt!r} but state advanced by "
                                          f"{adv[:3]} (script first={sc['first']} levels={sc['levels']})", script=sc, advanced=adv[:4], dt=dt))
                if ev["last_kind"] == 0 and ev["last_flag"] < 0:
                    viol.append(violation("success_after_failed_call", f"Solve returned success although the last CVode call returned {ev['last_flag']}", script=sc))
                if sc["reinit"] and sc["reinit"][-1] < 0 and ev["reinit_calls"] >= len(sc["reinit"]):
                    # the scripted failing CVodeReInit was reached (whatever was called after it): not a recoverable outcome
                    obs["success_after_reached_reinit_failure"] += 1
                    viol.append(violation("success_after_failed_reinit", f"Solve returned success although CVodeReInit call #{len(sc['reinit'])} returned "
                                          f"{sc['reinit'][-1]} ({ev['reinit_calls']} re-initialisations, {ev['cvode_calls']} CVode calls)", script=sc))
            else:
                obs["failure_runs_checked"] += 1
                ylog = ev["y_logged"]
                ok = len(ylog) == n_eq and all(abs(a - b0) <= 1e-6 * max(1.0, abs(b0)) for a, b0 in zip(ylog, y0))
                if not ok or not ev["logged_unrecoverable"]:
                    viol.append(violation("failure_without_initial_state", f"Solve returned failure but the error record holds y={ylog[:4]} "
                                          f"(initial {y0[:4]}), unrecoverable-text={ev['logged_unrecoverable']}", script=sc))
                # a run whose every scripted call succeeded must not be reported as failure either
                if not failing:
                    viol.append(violation("failure_without_fault", "Solve returned failure although no integrator call failed", script=sc))
            if ev["live"] != [0, 0, 0, 0, 0]:
                viol.append(violation("solver_objects_leaked", f"live shim objects after Finalize: {ev['live']}", script=sc))
        else:
            obs["odeint_runs"] += 1
            n, mx, th = sc["nsteps"], sc["mxsteps"], sc["throw_at"]
            threw = 0 <= th < n
            nontrivial = nontrivial or threw or n > mx
            if n > mx and not (threw and th <= mx) and ev["ret"] == 0:
                viol.append(violation("odeint_budget_exceeded_but_success", f"{n} steps with mxsteps={mx} returned success", script=sc))
            if n > mx:
                obs["odeint_over_budget"] += 1
            if sc.get("stall"):
                obs["odeint_stalled_step_scripts"] += 1
            if threw:
                obs["odeint_integrator_exception"] += 1
            if ev["ret"] == 0:
                obs["success_runs_checked"] += 1
                if not exact:
                    viol.append(violation("success_but_wrong_interval", f"odeint: success, dt={dt!r}, advanced {adv[:3]}", script=sc))
                if threw:
                    viol.append(violation("success_after_failed_call", "odeint: success although the integrator threw", script=sc))
            else:
                obs["failure_runs_checked"] += 1
                if not threw and n < mx:
                    viol.append(violation("failure_without_fault", f"odeint: failure with {n} steps < mxsteps={mx} and no exception", script=sc))
    sample = {"target": f"{case['kind']}/{case.get('backend', 'rosenbrock4')}/{case['net']}", "scripts": len(scripts),
              "example_script": scripts[0] if scripts else None, "example_result": {k: solves[0][k] for k in ("ret", "ab") if solves} if solves else None}
    return {"status": "violated" if viol else "held", "violations": viol[:10], "obs": dict(obs), "nontrivial": nontrivial, "sample": sample}


def aggregate(results, cases):
    distinct, failing = set(), set()
    for c in cases:
        for sc in c["scripts"]:
            key = common.canon({k: v for k, v in sc.items() if k != "dt"})
            distinct.add(key)
            if (c["kind"] == "cvode" and sc["first"] is not None and sc["first"][0] < 0) or \
               (c["kind"] == "odeint" and (sc["nsteps"] > sc["mxsteps"] or 0 <= sc["throw_at"] < sc["nsteps"])):
                failing.add(key)
    ran = sum((r.get("obs") or {}).get("scripts_run", 0) for r in results)
    return {"distinct_scripts": len(distinct), "evaluations": ran, "distinct_nontrivial": len(failing),
            "exhaustive": False, "builds": len(cases)}
