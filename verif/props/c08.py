"""C08 - species names are decomposed into the right elements, charge and phase.

Deciding step: names are *rendered* from compositions (so the expected parse is known by
construction) under several naming configurations and handed to the real `Species`; a monitor
compares element counts, charge, phase, gas-phase counterpart, mass number, is_atom and the
rewritten name.  Ill-formed names must raise.
"""
from __future__ import annotations

import itertools
import random
from collections import Counter

from .. import common
from ..common import violation
from ..gen import chem

ID = "C08"
LEVEL = "exploration"
BATCH = 4
TIMEOUT = 120
USES_LAB = False
REQUIRED_OBS = ["names_checked", "adjacent_pairs_checked", "garbage_names_checked", "cfg_default", "cfg_upper_replace", "cfg_custom_symbols", "cfg_upper_G_prefix",
                "cfg_elements_only", "cfg_explicit_default_lists", "configured_tables_unchanged"]
RULE = ("names rendered from compositions: all ordered pairs of adjacent symbols of the active list with counts 1/2/10+, random "
        "2-4 element formulas, ortho/para/meta and c-/l-/* labels, surface prefixes with group digits, grain symbols with "
        "groups, charges -3..+4, under (a) the default lists, (b) the upper-case list with replacement of the bundled cloud "
        "example, (c) custom prefix 'G' / grain symbol; renderings that an independent longest-match tokenizer reads "
        "differently are skipped and counted; garbage names must raise; non-trivial = name with >=2 symbols or a label/prefix/"
        "charge; distinct by (configuration, name)")
ASSUMPTIONS = ["mass numbers from an independent table of standard isotopes", "ambiguous renderings are excluded by an independent tokenizer"]

UPPER = ["E", "H", "D", "HE", "C", "N", "O", "MG", "SI", "S", "CL"]
UPPER_PSEUDO = ["CR", "CRP", "PHOTON", "CRPHOT"]
UPPER_REPL = {"E": "e", "HE": "He", "MG": "Mg", "SI": "Si", "CL": "Cl"}

CONFIGS = {
    "default": dict(elements=None, pseudo=None, repl={}, kwargs={}, prefix="#", grain="GRAIN",
                    syms=[e for e in chem.DEFAULT_ELEMENTS if e not in ("e", "E")], labels=["o", "p", "m"], pre_labels=["c-", "l-"],
                    post_labels=["*"]),
    "upper_replace": dict(elements=UPPER, pseudo=UPPER_PSEUDO, repl=UPPER_REPL, kwargs={}, prefix="#", grain="GRAIN",
                          syms=[e for e in UPPER if e != "E"], labels=[], pre_labels=[], post_labels=[]),
    "custom_symbols": dict(elements=["e", "H", "D", "He", "C", "N", "O", "Si", "S", "Fe"], pseudo=["CR", "o", "p"], repl={},
                           kwargs=dict(surface_prefix="G", grain_symbol="DUST"), prefix="G", grain="DUST",
                           syms=["H", "D", "He", "C", "N", "O", "Si", "S", "Fe"], labels=["o", "p"], pre_labels=[], post_labels=[]),
    # upper-case list + surface prefix 'G' (the Leeds convention) + 'M' as a third-body pseudo element: the prefix letter also
    # occurs inside element symbols (MG), so symbol-vs-prefix precedence matters
    "upper_G_prefix": dict(elements=UPPER, pseudo=UPPER_PSEUDO + ["M"], repl=UPPER_REPL, kwargs=dict(surface_prefix="G"), prefix="G",
                           grain="GRAIN", syms=[e for e in UPPER if e != "E"], labels=[], pre_labels=[], post_labels=[]),
    # the default lists given EXPLICITLY, as `naunet init` writes them into the configuration (the `*` label pre-escaped as a regex: \\*)
    "explicit_default_lists": dict(elements=list(chem.DEFAULT_ELEMENTS), pseudo=["CR", "CRP", "XRAY", "Photon", "PHOTON", "CRPHOT", "X", "M", "p", "o", "m", "c-", "l-", "\\*", "g"],
                                   repl={}, kwargs={}, prefix="#", grain="GRAIN", syms=[e for e in chem.DEFAULT_ELEMENTS if e not in ("e", "E")],
                                   labels=["o", "p", "m"], pre_labels=["c-", "l-"], post_labels=["*"], tokenizer_pseudo=list(chem.DEFAULT_PSEUDO)),
    # an element list and NO pseudo elements (the bundled 'minimal' example's configuration): the short list is the whole
    # vocabulary, names that only the default tables know must be rejected
    "elements_only": dict(elements=["e", "H", "D", "C", "O", "S"], pseudo=[], repl={}, kwargs={}, prefix="#", grain="GRAIN",
                          syms=["H", "D", "C", "O", "S"], labels=[], pre_labels=[], post_labels=[],
                          extra_garbage=["HCl", "Mg", "SiO", "oH2", "pH2", "H2*", "HCRP", "#Si", "NH3", "CN", "l-C3H", "HM", "M", "M+"]),
}


def spec_name(cfg, sp):
    core = "".join(sp["pre"]) + "".join(s + (str(n) if n != 1 else "") for s, n in sp["parts"]) + "".join(sp["post"])
    pre = ""
    if sp["surface"] is not None:
        pre = cfg["prefix"] + (str(sp["surface"]) if sp["surface"] else "")
    q = sp["charge"]
    return pre + core + ("+" * q if q > 0 else "-" * (-q))


def expected(cfg, sp):
    repl = cfg["repl"]
    comp = {}
    for s, n in sp["parts"]:
        k = repl.get(s, s)
        comp[k] = comp.get(k, 0) + n
    core = "".join(sp["pre"]) + "".join(repl.get(s, s) + (str(n) if n != 1 else "") for s, n in sp["parts"]) + "".join(sp["post"])
    pre = ""
    if sp["surface"] is not None:
        pre = cfg["prefix"] + (str(sp["surface"]) if sp["surface"] else "")
    q = sp["charge"]
    sign = "+" * q if q > 0 else "-" * (-q)
    name = (pre + core + sign) if repl else spec_name(cfg, sp)
    gas = (core + sign) if repl else spec_name(cfg, dict(sp, surface=None))
    mass = None
    if all(k in chem.MASSNUM for k in comp):
        mass = float(sum(chem.MASSNUM[k] * n for k, n in comp.items()))
    return {"element_count": comp, "charge": q, "is_surface": sp["surface"] is not None, "surface_group": sp["surface"],
            "name": name, "gasname": gas, "massnumber": mass,
            "is_atom": (len(comp) == 1 and sum(comp.values()) == 1 and q == 0 and sp["surface"] is None)}


def tokenizes_back(cfg, sp):
    """independent L2R longest-match over all configured symbols must give the same reading"""
    symbols = list(cfg["elements"] or chem.DEFAULT_ELEMENTS) + list(cfg.get("tokenizer_pseudo") or (cfg["pseudo"] if cfg["pseudo"] is not None else chem.DEFAULT_PSEUDO))
    core = "".join(sp["pre"]) + "".join(s + (str(n) if n != 1 else "") for s, n in sp["parts"]) + "".join(sp["post"])
    toks = chem.tokenize(core, symbols + [cfg["prefix"], cfg["grain"]])
    if toks is None:
        return False
    want = [(p, 1) for p in sp["pre"]] + [(s, n) for s, n in sp["parts"]] + [(p, 1) for p in sp["post"]]
    return toks == want


def gen_specs(rng, cfgname, n_random):
    cfg = CONFIGS[cfgname]
    syms = cfg["syms"]
    specs = []
    # all ordered pairs of adjacent symbols, with count variants
    for a, b in itertools.product(syms, syms):
        for ca, cb in rng.sample([(1, 1), (2, 1), (1, 2), (10, 1), (1, 12), (2, 3)], 2):
            specs.append({"parts": [(a, ca), (b, cb)], "charge": 0, "surface": None, "pre": [], "post": [], "pair": True})
    for _ in range(n_random):
        k = rng.choice([1, 2, 2, 3, 3, 4])
        parts = [(rng.choice(syms), rng.choice([1, 1, 1, 2, 2, 3, 4, 10, 11, 24])) for _ in range(k)]
        sp = {"parts": parts, "charge": rng.choice([0, 0, 0, 1, 1, 2, 3, 4, -1, -2, -3]), "surface": None, "pre": [], "post": []}
        r = rng.random()
        if r < 0.25:
            sp["surface"] = rng.choice([0, 0, 0, 1, 2, 12])
            sp["charge"] = rng.choice([0, 0, 0, 1, -1])
        if cfg["labels"] and rng.random() < 0.2:
            sp["pre"] = [rng.choice(cfg["labels"])]
        elif cfg["pre_labels"] and rng.random() < 0.1:
            sp["pre"] = [rng.choice(cfg["pre_labels"])]
        if cfg["post_labels"] and rng.random() < 0.1 and sp["charge"] == 0:
            sp["post"] = [rng.choice(cfg["post_labels"])]
        specs.append(sp)
    # single atoms in every charge state
    for s in syms:
        for q in (-3, -1, 0, 1, 2, 4):
            specs.append({"parts": [(s, 1)], "charge": q, "surface": None, "pre": [], "post": []})
    return specs


GARBAGE = ["Xx", "Qz2", "H+2", "2H", "H2O!", "CO 2", "h2o", "Hx", "HxO", "C@", "H_2", "He?", "H+-", "Tt+", "C2H5OHz", "Zr", "H2 ", "H,2"]


def gen_cases(tier):
    rng = common.rng_for(ID)
    n = 1200 if tier == "quick" else 40000
    cases = []
    for cfgname in CONFIGS:
        r = random.Random(rng.getrandbits(64))
        specs = gen_specs(r, cfgname, n)
        chunk = 800 if tier == "quick" else 4000
        for i in range(0, len(specs), chunk):
            cases.append({"config": cfgname, "specs": specs[i:i + chunk], "garbage": (GARBAGE + CONFIGS[cfgname].get("extra_garbage", [])) if i == 0 else [],
                          "grains": i == 0})
    return cases


def run_case(case, ctx):
    from naunet.species import Species
    obs, viol = Counter(), []
    cfg = CONFIGS[case["config"]]
    Species.reset()
    if cfg["elements"] is not None:
        Species.set_known_elements(list(cfg["elements"]))
        Species.set_known_pseudoelements(list(cfg["pseudo"]))
    Species._replacement = dict(cfg["repl"])       # this is how `naunet render` installs the table
    obs["cfg_" + case["config"]] += 1
    distinct = set()
    for sp in case["specs"]:
        sp = dict(sp, parts=[tuple(p) for p in sp["parts"]])
        name = spec_name(cfg, sp)
        if not tokenizes_back(cfg, sp):
            obs["ambiguous_skipped"] += 1
            continue
        exp = expected(cfg, sp)
        try:
            s = Species(name, **cfg["kwargs"])
        except Exception as e:
            viol.append(violation("well_formed_name_rejected", f"[{case['config']}] Species({name!r}) raised {type(e).__name__}: {e}", name=name, spec=sp))
            continue
        obs["names_checked"] += 1
        distinct.add(name)
        if sp.get("pair"):
            obs["adjacent_pairs_checked"] += 1
        got = {"element_count": dict(s.element_count), "charge": s.charge, "is_surface": s.is_surface,
               "surface_group": s.surface_group if s.is_surface else None, "name": s.name, "gasname": s.gasname, "is_atom": s.is_atom}
        if exp["massnumber"] is not None:
            got["massnumber"] = float(s.massnumber)
        for k, v in got.items():
            e = exp[k]
            if k == "surface_group" and e is not None:
                e = e
            if v != e:
                w = {}
                if k == "element_count":
                    extra = {kk: vv for kk, vv in v.items() if kk not in e}
                    if extra and {kk: vv for kk, vv in v.items() if kk in e} == e and set(extra) <= {"*"}:
                        w["mechanism"] = "C08/star-label-counted-as-element"
                viol.append(violation(f"{k}_mismatch", f"[{case['config']}] Species({name!r}).{k} = {v!r}, composition says {e!r}", name=name, spec=sp, **w))
                break
    for g in case.get("garbage") or []:
        obs["garbage_names_checked"] += 1
        try:
            s = Species(g, **cfg["kwargs"])
            viol.append(violation("garbage_name_accepted", f"[{case['config']}] Species({g!r}) accepted: {dict(s.element_count)} charge {s.charge}", name=g))
        except Exception:
            obs["garbage_rejected"] += 1
    if case.get("grains"):
        gsym = cfg["grain"]
        for nm, grp, q in [(f"{gsym}0", 0, 0), (f"{gsym}-", 0, -1), (f"{gsym}+", 0, 1), (f"{gsym}1", 1, 0), (f"{gsym}2-", 2, -1), (f"{gsym}12+", 12, 1)]:
            try:
                s = Species(nm, **cfg["kwargs"])
            except Exception as e:
                viol.append(violation("well_formed_name_rejected", f"[{case['config']}] Species({nm!r}) raised {type(e).__name__}: {e}", name=nm))
                continue
            obs["grain_names_checked"] += 1
            g_grp = s.grain_group or 0
            if not s.is_grain or g_grp != grp or s.charge != q or s.is_surface or dict(s.element_count) != {gsym: 1}:
                viol.append(violation("grain_mismatch", f"[{case['config']}] Species({nm!r}): is_grain={s.is_grain} group={s.grain_group} charge={s.charge} "
                                      f"counts={dict(s.element_count)}", name=nm))
    if cfg["elements"] is not None:
        # parsing must not alter the configured vocabulary
        obs["configured_tables_unchanged"] += 1
        if list(Species.known_elements()) != list(cfg["elements"]) or list(Species.known_pseudoelements()) != list(cfg["pseudo"]):
            obs["configured_tables_unchanged"] -= 1
            viol.append(violation("configured_symbol_tables_altered", f"[{case['config']}] after parsing the element / pseudo-element tables are "
                                  f"{Species.known_elements()} / {Species.known_pseudoelements()}, configured {cfg['elements']} / {cfg['pseudo']}"))
    Species.reset()
    sample = {"config": case["config"], "names": sorted(distinct)[:12], "n": len(distinct)}
    return {"status": "violated" if viol else "held", "violations": viol[:12], "obs": dict(obs), "nontrivial": len(distinct) > 1, "sample": sample,
            "distinct": len(distinct)}


def aggregate(results, cases):
    return {"distinct_nontrivial": sum(r.get("distinct", 0) for r in results), "evaluations": sum((r.get("obs") or {}).get("names_checked", 0) for r in results)}
