"""C01 - the emitted right-hand side is the mass-action law of the input network.

Deciding step: the *compiled* generated Fex (cvode dense/sparse, cusparse kernel text emulated
on the CPU, odeint functor) is executed under ASan/UBSan on random abundance vectors; the rate
vector it used is logged by the EvalRates seam (passthrough) or injected (distinct O(1) values);
a reference recomputes ydot from the abstract network.
"""
from __future__ import annotations

import random

from .. import common
from ..common import close, violation
from ..gen import chem, encode
from . import structural as S

ID = "C01"
LEVEL = "exploration"
BATCH = 1
TIMEOUT = 600
REQUIRED_OBS = ["ydot_compared", "backend_dense", "backend_sparse", "backend_cusparse", "backend_odeint", "tag_bundled_primordial", "tag_two_ice_groups", "tag_labelled_pairs",
                "tag_spelling_upper_replace", "tag_ode_modifier", "tag_file_entry"]
TIMEOUT = 3000
RULE = ("seeded random abstract networks (species from compositions; reactions with 1-3 reactants incl. repeats, 0-5 "
        "products, catalysts, pseudo-reactants, duplicate reactions, isolated required species; entry through the API or "
        "through 1-3 files of mixed formats; optional cooling processes and ODE modifiers) rendered for dense, sparse, "
        "cusparse(emulated, 3 systems) and odeint; non-trivial = has a repeated reactant, a 3-body reaction, a catalyst or a "
        "pseudo-reactant; distinct by sha1 of the abstract case")
ASSUMPTIONS = [
    "SUNDIALS/Boost/CUDA are replaced by /verif shims; CUDA kernels are run as sequential CPU threads",
    "species->slot binding is read from the compiled IDX_ macros using naunet's documented alias convention",
    "clang-14 -O0 -ffp-contract=off; tolerance 1e-12 x sum|terms|",
]


def add_thermal(rng, net):
    names = {s["name"] for s in net["species"]}
    need = [chem.make_species([("H", 1)]), chem.make_species([], electron="e-"), chem.make_species([("He", 1)]),
            chem.make_species([("He", 1)], charge=1), chem.make_species([("H", 1)], charge=1),
            chem.make_species([("He", 1)], charge=2)]
    for sp in need:
        if sp["name"] not in names:
            net["species"].append(sp)
            net.setdefault("required", []).append(sp["name"])
    k = rng.randint(1, 5)
    return rng.sample(sorted(S.COOLING), k)


def make_modifiers(rng, net, nmax=2, maxdeps=1):
    used = [s["name"] for s in net["species"]]
    mods = {}
    for _ in range(rng.randint(1, nmax)):
        target = rng.choice(used)
        nt = rng.randint(1, 2)
        factors, deps = [], []
        for _ in range(nt):
            v = round(rng.uniform(-3, 3), 3) or 1.5
            r_ = rng.random()
            if r_ < 0.3:
                factors.append((f"nH*{abs(v)}", 100.0 * abs(v)))   # nH is set to 1e2 by the harness
            elif r_ < 0.45:
                # sums and differences of parenthesised groups: the factor as a whole multiplies the abundance product
                w = round(rng.uniform(0.1, 2), 3)
                factors.append(rng.choice([(f"({abs(v)}) - ({w})", abs(v) - w), (f"(nH*{w}) + ({abs(v)})", 100.0 * w + abs(v)),
                                           (f"{abs(v)} - {w}", abs(v) - w), (f"-({w}) - ({abs(v)})", -w - abs(v))]))
            else:
                factors.append((repr(v), v))
            nd = rng.randint(0 if maxdeps == 0 else 1, maxdeps)
            d = [rng.choice(used) for _ in range(nd)]
            if nd >= 2 and rng.random() < 0.4:
                d[1] = d[0]
            deps.append(d)
        mods[target] = {"factors": factors, "reactants": deps}
    return mods


def file_chunks(rng, net):
    """Partition the reaction list into 1-3 consecutive chunks, each with a format that fits."""
    n = len(net["reactions"])
    if n == 0:
        return None
    ncut = rng.randint(1, min(3, n))
    cuts = sorted(rng.sample(range(1, n), ncut - 1)) if ncut > 1 else []
    bounds = [0] + cuts + [n]
    chunks = []
    for a, b in zip(bounds, bounds[1:]):
        idxs = list(range(a, b))
        fmts = [f for f in ("kida", "umist", "naunet") if all(encode.fits(f, net["reactions"][i]) for i in idxs)]
        if not fmts:
            return None
        chunks.append({"format": rng.choice(fmts), "reactions": idxs})
    return chunks


def make_case(rng: random.Random, tier: str, thermal_p=0.25, mod_p=0.2, maxdeps=1, file_p=0.4, big=False, label_p=0.15, ice2_p=0.12, upper_p=0.2) -> dict:
    nspec = rng.randint(3, 22 if big else 9)
    nreac = rng.randint(1, 60 if big else 14)
    net = chem.structural_network(rng, nspec, nreac, extra_isolated=rng.choice([0, 1, 2]), surface=rng.random() < 0.3)
    case = {"net": net, "entry": "api", "indexed": rng.random() < 0.8}
    if rng.random() < upper_p:
        # upper-case element spelling with a replacement table (the UCLCHEM example's convention)
        un = chem.upper_variant(net)
        for _ in range(20 if upper_p >= 1.0 else 0):
            if un is not None:
                break
            # stratum case: draw networks until one can be spelled in upper case (no ortho/para labels)
            net = case["net"] = chem.structural_network(rng, nspec, nreac, extra_isolated=rng.choice([0, 1, 2]), surface=rng.random() < 0.3)
            un = chem.upper_variant(net)
        if un is not None:
            net = case["net"] = un
            case["spelling"] = "upper_replace"
            thermal_p = 0.0
    if not case.get("spelling") and rng.random() < label_p:
        # an excited species next to its ground state (H2* / H2) and a cyclic isomer next to the plain formula (c-C3H2 / C3H2):
        # different species, different slots, although the label characters cannot appear in an identifier
        by = {s_["name"]: s_ for s_ in net["species"]}
        extra = [{"name": "H2*", "comp": {"H": 2}, "charge": 0, "surface": False, "label": "*", "electron": False, "alias": "H2_I", "massnumber": 2},
                 {"name": "c-C3H2", "comp": {"C": 3, "H": 2}, "charge": 0, "surface": False, "label": "c-", "electron": False, "alias": "c_C3H2I", "massnumber": 38},
                 {"name": "C3H2", "comp": {"C": 3, "H": 2}, "charge": 0, "surface": False, "label": "", "electron": False, "alias": "C3H2I", "massnumber": 38}]
        for e in extra:
            by.setdefault(e["name"], e)
        by.setdefault("H2", chem.make_species([("H", 2)]))
        n0 = len(net["reactions"])
        other = rng.choice([n for n in by if n not in ("H2*", "c-C3H2")])
        for res, prs in ((["H2*"], ["H2"]), (["H2", other], ["H2*", other]), (["c-C3H2"], ["C3H2"]), (["C3H2", "H2*"], ["c-C3H2", "H2"])):
            net["reactions"].append({"reactants": res, "products": prs, "pseudo": None, "idx": len(net["reactions"]) + 1})
        used = {n for r in net["reactions"] for n in r["reactants"] + r["products"]} | set(net.get("required") or [])
        net["species"] = [by[n] for n in sorted(used)]
        case["labelled_pairs"] = True
    if not case.get("spelling") and rng.random() < ice2_p:
        # the same molecule as ice on two grain populations (#CO on group 0, #1CO on group 1): two species, two slots
        by = {s_["name"]: s_ for s_ in net["species"]}
        g = rng.choice([s_ for s_ in net["species"] if not s_["electron"] and not s_["surface"] and s_["charge"] == 0 and not s_["label"]] or [chem.make_species([("H", 2)])])
        by.setdefault(g["name"], g)
        ice0 = chem.make_species(chem._parts_of(g), surface=True)
        ice1 = dict(ice0, name="#1" + ice0["name"][1:], alias="G1" + ice0["alias"][1:])
        by.setdefault(ice0["name"], ice0)
        by[ice1["name"]] = ice1
        for res, prs in (([g["name"]], [ice0["name"]]), ([g["name"]], [ice1["name"]]), ([ice1["name"]], [g["name"]]), ([ice1["name"], ice1["name"]], [ice1["name"], g["name"]]),
                         ([ice0["name"]], [g["name"]])):
            net["reactions"].append({"reactants": res, "products": prs, "pseudo": None, "idx": len(net["reactions"]) + 1})
        used = {n for r in net["reactions"] for n in r["reactants"] + r["products"]} | set(net.get("required") or [])
        net["species"] = [by[n] for n in sorted(used)]
        case["two_ice_groups"] = True
    if rng.random() < thermal_p:
        case["cooling"] = add_thermal(rng, net)
    if rng.random() < mod_p:
        case["ode_modifier"] = make_modifiers(rng, net, maxdeps=maxdeps)
    nr = len(net["reactions"])
    case["alphas"] = chem.distinct_alphas(rng, nr)
    if rng.random() < file_p:
        ch = file_chunks(rng, net)
        if ch:
            case["entry"] = "files"
            case["chunks"] = ch
            case["alphas"] = [round(a, 3) for a in case["alphas"]]
    names = [s["name"] for s in net["species"]]
    case["ys"] = []
    for _ in range(2):
        yv = {n: 0.5 + 1.5 * rng.random() for n in names}
        yv["__TGAS__"] = 10 ** rng.uniform(3.5, 5.5)
        case["ys"].append(yv)
    case["ks"] = [chem.distinct_alphas(rng, max(nr, 1)) for _ in range(2)]
    if case.get("cooling"):
        case["kcs"] = chem.distinct_alphas(rng, len(case["cooling"]))
        case["npar"] = 0.5 + rng.random()
        case["gamma"] = 1.2 + rng.random()
    case["nsystem"] = rng.choice([1, 3])
    case["block"] = rng.choice([1, 2])
    return case


def bundled_case(example: str, rng, backends=None) -> dict:
    """A bundled example network as a structural case: species and reactions from /verif's own reader of the file."""
    from ..gen import bundled
    b = bundled.load(example, common.REPO)
    net = {"species": b["species"], "reactions": b["reactions"], "required": b["required"]}
    case = {"net": net, "entry": "bundled", "bundled": example, "alphas": None, "indexed": True, "special": "bundled"}
    cool = list(b["module"].cooling)
    if cool:
        case["cooling"] = cool
        case["kcs"] = chem.distinct_alphas(rng, len(cool))
        case["npar"], case["gamma"] = 0.5 + rng.random(), 1.2 + rng.random()
    names = [s["name"] for s in net["species"]]
    case["ys"] = []
    for _ in range(2):
        yv = {n: 0.5 + 1.5 * rng.random() for n in names}
        yv["__TGAS__"] = 10 ** rng.uniform(3.5, 5.5)
        case["ys"].append(yv)
    case["ks"] = [chem.distinct_alphas(rng, len(net["reactions"])) for _ in range(2)]
    case["nsystem"], case["block"] = 3, 2
    case["data"] = {"Tgas": 300.0}
    if getattr(b["module"], "grain_model", ""):
        case["rates_depend_on_y"] = True
    om = dict(getattr(b["module"], "ode_modifier", {}) or {})
    if om:
        # factor values are derived quantities: resolved at the data point by structural.resolve_deferred_factors
        case["ode_modifier"] = {sn: {"factors": [[f, None] for f in m["factors"]], "reactants": [list(d) for d in m["reactants"]]} for sn, m in om.items()}
        case["deferred_factors"] = True
        case["data"] = {"Tgas": 20.0, "Av": 1.5, "G0": 0.75, "nH": 2.0e3}
    if backends:
        case["backends"] = backends
    return case


def tags_of(case) -> set:
    t = set()
    for r in case["net"]["reactions"]:
        if len(set(r["reactants"])) < len(r["reactants"]):
            t.add("repeated_reactant")
        if len(r["reactants"]) == 3:
            t.add("three_body")
        if set(r["reactants"]) & set(r["products"]):
            t.add("catalyst")
        if r.get("pseudo"):
            t.add("pseudo_reactant")
        if not r["products"]:
            t.add("no_products")
    if case["net"].get("required"):
        t.add("isolated_species")
    if case.get("cooling"):
        t.add("thermal")
    if case.get("ode_modifier"):
        t.add("ode_modifier")
    if case.get("spelling"):
        t.add("spelling_" + case["spelling"])
    if case.get("rate_modifier"):
        t.add("rate_modifier")
    if case.get("labelled_pairs"):
        t.add("labelled_pairs")
    if case.get("two_ice_groups"):
        t.add("two_ice_groups")
    if any(s["surface"] for s in case["net"]["species"]):
        t.add("ice_species")
    if case.get("entry") == "files":
        t.add("file_entry")
        if len({c["format"] for c in case["chunks"]}) > 1:
            t.add("mixed_formats")
    rs = [(tuple(sorted(r["reactants"])), tuple(sorted(r["products"]))) for r in case["net"]["reactions"]]
    if len(set(rs)) < len(rs):
        t.add("duplicate_reaction")
    return t


def gen_cases(tier: str) -> list[dict]:
    rng = common.rng_for(ID)
    n = 36 if tier == "quick" else 500
    cases = []
    for i in range(n):
        r = random.Random(rng.getrandbits(64))
        # strata: every 6th case has ODE modifiers, every 6th comes through files (the rest by the default probabilities)
        cases.append(make_case(r, tier, big=(tier == "thorough" and i % 5 == 0), mod_p=(1.0 if i % 6 == 1 else 0.2), file_p=(1.0 if i % 6 == 2 else 0.4),
                               label_p=(1.0 if i % 6 == 4 else 0.15), ice2_p=(1.0 if i % 6 == 3 else 0.12), upper_p=(1.0 if i % 6 == 5 else 0.2)))
    if True:
        cases.append({"net": {"species": [], "reactions": [], "required": []}, "alphas": [], "entry": "api",
                      "ys": [{"__TGAS__": 1e4}], "ks": [[1.25]], "special": "empty"})
    # bundled example networks (real-world structure): minimal and primordial always, deuterium (3466 reactions) in the thorough tier
    r = random.Random(rng.getrandbits(64))
    cases.append(bundled_case("minimal", r))
    cases.append(bundled_case("primordial", r))
    if tier == "thorough":
        cases.append(bundled_case("deuterium", r, backends=["dense", "sparse"]))
        cases.append(bundled_case("cloud", r, backends=["dense", "sparse", "odeint"]))
    return cases


# ---------------------------------------------------------------------------------- monitor

def check_fex(case, be, o, viol, obs):
    n_eq = o["n_eq"]
    slots = o["slots"]
    nre = len(case["net"]["reactions"])
    reacting = {s for r in case["net"]["reactions"] for s in r["reactants"] + r["products"]}
    for sname in (case.get("ode_modifier") or {}):
        reacting.add(sname)
    for pi, run in enumerate(o["runs"]):
        k_rates = None
        for st, ev in run["events"]:
            if st == "rates":
                k_rates = ev["k"]
            name = st if isinstance(st, str) else st[0]
            if name not in ("fex", "inject_fex"):
                continue
            nsys = len(run["y"])
            for s in range(nsys):
                y = run["y"][s]
                if name == "inject_fex":
                    k = st[1]
                    kc, npar, gamma = case.get("kcs"), case.get("npar"), case.get("gamma")
                else:
                    if be == "odeint":
                        k = k_rates
                        kc = npar = gamma = None
                        if case.get("cooling"):
                            continue   # odeint: thermal parts are observed through C03's bit-identity with dense
                    else:
                        kall = ev["k"]
                        k = kall[s * max(nre, 1):(s + 1) * max(nre, 1)] if be == "cusparse" else kall
                        kc = ev.get("kc")
                        if be == "cusparse" and kc:
                            nc = len(case["cooling"])
                            kc = kc[s * nc:(s + 1) * nc]
                        npar, gamma = ev.get("npar"), ev.get("gamma")
                        if be == "cusparse" and case.get("cooling") and nsys > 1:
                            # npar/gamma logged by the seam are those of the last system only
                            if s != nsys - 1:
                                continue
                    # the rate vector must be the one EvalRates produced for *these* reactions
                    if name == "fex" and nre and len(k) >= nre and case.get("alphas") is not None:
                        for ri, a in enumerate(case["alphas"]):
                            if k[ri] != a:
                                viol.append(violation("rate_slot_mismatch", f"{be}: k[{ri}]={k[ri]!r} but reaction {ri} has alpha={a!r}",
                                                      backend=be, reaction=case["net"]["reactions"][ri]))
                                break
                if k is None or (nre and len(k) < nre):
                    viol.append(violation("rate_vector_size", f"{be}: got {0 if k is None else len(k)} rates for {nre} reactions", backend=be))
                    continue
                ydot_obs = ev["ydot"][s * n_eq:(s + 1) * n_eq]
                ref, scale = S.ref_fex(case, slots, k, y, kc=kc, npar=npar, gamma=gamma, n_eq=n_eq)
                for sp in case["net"]["species"]:
                    i = slots[sp["name"]]
                    obs["ydot_compared"] += 1
                    if sp["name"] not in reacting:
                        obs["isolated_checked"] += 1
                        if ydot_obs[i] != 0.0:
                            viol.append(violation("isolated_species_nonzero", f"{be}: d[{sp['name']}]/dt = {ydot_obs[i]!r}", backend=be))
                        continue
                    if not close(ydot_obs[i], ref[i], scale[i]):
                        viol.append(violation("ydot_mismatch", f"{be} {name} sys{s}: d[{sp['name']}]/dt observed {ydot_obs[i]!r} reference {ref[i]!r}",
                                              backend=be, species=sp["name"], observed=ydot_obs[i], reference=ref[i], scale=scale[i], mode=name))
                        break
                if case.get("cooling"):
                    obs["thermal_compared"] += 1
                    if not close(ydot_obs[n_eq - 1], ref[n_eq - 1], scale[n_eq - 1]):
                        viol.append(violation("thermal_mismatch", f"{be} {name}: dT/dt observed {ydot_obs[n_eq - 1]!r} reference {ref[n_eq - 1]!r}",
                                              backend=be, observed=ydot_obs[n_eq - 1], reference=ref[n_eq - 1]))


def run_case(case: dict, ctx) -> dict:
    from collections import Counter
    obs = Counter()
    viol = []
    backends = case.get("backends") or ["dense", "sparse", "cusparse", "odeint"]
    out = S.run_backends(case, ctx, backends, {"pass", "inject"})
    for w, m, tb in out["errors"]:
        kind = "emitted_code_does_not_compile" if w.startswith("compile") else "generator_or_run_failure"
        viol.append(violation(kind, f"{w}: {m}", trace=tb))
    for be in backends:
        o = out.get(be)
        if not o:
            continue
        for p in o.get("problems") or []:
            viol.append(violation("slot_binding", f"{be}: {p[0]} {p[1]}", backend=be))
        if "runs" not in o:
            continue
        if o["sanitizer"]:
            obs["sanitizer_reports"] += len(o["sanitizer"])
            viol.append(violation("sanitizer_report", f"{be}: {o['sanitizer'][0][:300]}", backend=be, stderr=o.get("stderr_tail")))
        if o.get("crashed") and not o["sanitizer"]:
            viol.append(violation("driver_crash", f"{be}: driver exited abnormally", stderr=o.get("stderr_tail")))
            continue
        obs[f"backend_{be}"] += 1
        if case.get("special") == "empty":
            # NEQUATIONS is forced to 1 with a dummy reaction and there is no species: the statement is
            # vacuous here (the generated Fex assigns nothing); the run only has to execute cleanly.
            for run in o["runs"]:
                for st, ev in run["events"]:
                    if ev["ev"] == "fex":
                        obs["ydot_compared"] += 1
                        obs["empty_network_fex_runs"] += 1
            continue
        check_fex(case, be, o, viol, obs)
    tags = tags_of(case) if case.get("special") != "empty" else {"empty_network"}
    if case.get("bundled"):
        tags.add("bundled_" + case["bundled"])
    for t in tags:
        obs["tag_" + t] += 1
    obs["reactions_executed"] += len(case["net"]["reactions"])
    nontrivial = bool(tags & {"repeated_reactant", "three_body", "catalyst", "pseudo_reactant"})
    sample = {"reactions": [f"{' + '.join(r['reactants'] + ([r['pseudo']] if r.get('pseudo') else []))} -> {' + '.join(r['products'])}"
                            for r in case["net"]["reactions"][:6]],
              "entry": case.get("entry"), "tags": sorted(tags), "cooling": case.get("cooling")}
    return {"status": "violated" if viol else "held", "violations": viol[:10], "obs": dict(obs), "nontrivial": nontrivial,
            "sample": sample}
