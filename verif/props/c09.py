"""C09 - one index per species: identifiers valid, unique and consistent everywhere.

Deciding step: networks whose species use the hard naming conventions are rendered by the real
generator (API and `naunet init --render`, plus the Enzo patch); the index macros are *compiled*
and printed by name, the Python constants module is executed, the project summary is parsed
and the Enzo tables are compiled and printed; a monitor checks bijectivity, identifier legality
and mutual agreement of names, order and counts across all artefacts.
"""
from __future__ import annotations

import keyword
import random
import re
import traceback
from collections import Counter

from .. import clihelp, common
from ..common import violation
from ..cxx import lab
from ..gen import chem, encode

ID = "C09"
LEVEL = "exploration"
BATCH = 1
TIMEOUT = 600
REQUIRED_OBS = ["macro_sets_checked", "python_modules_executed", "summaries_checked", "enzo_tables_checked", "patch_from_second_process_checked", "tag_multiply_charged", "tag_labelled",
                "tag_ice_both_prefixes", "tag_grain_groups", "tag_excited_star", "tag_isomer_prefix", "tag_upper_replace", "tag_two_spellings", "tag_two_grain_groups"]
RULE = ("networks over species with multiply charged ions (up to ++++ / ---), o/p/m labels, ice species under '#' (API/KIDA) and 'G' "
        "(Leeds) prefixes, grains with group numbers, excited species (H2*), c-/l- isomers, an upper-case element list with replacement; "
        "electron and ice species spelt differently in merged files; all back-ends; CLI render for the summary, Enzo patch for the "
        "per-species tables; non-trivial = network has >= 3 of the naming features; distinct by sha1 of the case")
ASSUMPTIONS = ["identifier legality: C [A-Za-z_][A-Za-z0-9_]* and not a Python keyword", "expected orders are not recomputed: the monitor demands mutual agreement and bijectivity"]

IDENT = re.compile(r"[A-Za-z_][A-Za-z0-9_]*\Z")


def make_case(rng, i):
    feats = set()
    names = ["H", "H2", "H+", "e-", "He", "C", "O", "CO"]
    def add(ns, f):
        names.extend(ns)
        feats.add(f)
    if rng.random() < 0.6 or i % 8 == 0:
        ladder = rng.choice([["Si+", "Si++", "Si+++", "Si++++"], ["C+", "C++", "C+++"], ["O-", "O--", "O---"], ["He+", "He++"], ["S-", "S--", "S+", "S++"]])
        add(ladder + rng.sample(["Fe+++", "Mg++", "N--"], 1), "multiply_charged")     # a whole charge ladder: every state needs its own identifier
    if rng.random() < 0.6 or i % 8 == 1:
        add(rng.sample(["oH2", "pH2", "oH2D+", "pH3+", "mD3+", "oD2"], 2), "labelled")
    if (rng.random() < 0.6 or i % 8 == 2) and i % 8 != 6:
        add(["#CO", "#H2O", "H2O"], "ice")
    if (rng.random() < 0.4 or i % 8 == 4) and i % 8 != 6:
        # grain groups have to match the surface-species groups ('#X' is group 0), otherwise naunet (rightly) refuses
        opts = [["GRAIN0", "GRAIN-"], ["GRAIN0", "GRAIN-", "GRAIN+"]] + ([] if "ice" in feats else [["GRAIN1", "GRAIN1-", "GRAIN2", "GRAIN2-"]])
        add(rng.choice(opts), "grain_groups")
    if "ice" not in feats and "grain_groups" not in feats and (rng.random() < 0.3 or i % 8 == 6):
        # two grain populations with their own ice mantles: the same molecule on group 0 and on group 1 are two species
        add(["#CO", "#1CO", "CO", "#H2O", "#1H2O", "H2O", "GRAIN0", "GRAIN-", "GRAIN1", "GRAIN1-"], "two_grain_groups")
    if rng.random() < 0.35 or i % 8 == 5:
        add(["H2*"], "excited_star")
    if rng.random() < 0.35 or i % 8 == 1:
        add(rng.sample(["c-C3H2", "l-C3H2", "c-C3H", "l-C3H"], 2), "isomer_prefix")
    upper = (i % 4 == 3)
    if upper:
        names = ["H", "H2", "H+", "E-", "HE", "HE+", "C", "O", "CO", "MG", "MG+", "SIO", "HCL", "#CO", "#SIO"]
        # ions of one-letter elements next to neutrals of two-letter ones (S+ / SI, HS+ / HSI, C+ / CL): identifier = renamed symbols
        # + charge suffix, the pieces must not be re-read across their boundary
        names += rng.sample(["S", "S+", "SI", "SI+", "HS+", "HSI", "C+", "CL", "CL+", "N+", "H2S+", "H2SI", "#SI", "#S", "S++", "SI++"], rng.randint(4, 9))
        feats = {"upper_replace", "ice"}
    reacs = []
    for j in range(rng.randint(4, 10)):
        res = [rng.choice(names) for _ in range(rng.choice([1, 2]))]
        prs = [rng.choice(names) for _ in range(rng.choice([1, 2]))]
        if any(n.startswith("GRAIN") for n in res + prs):
            res = [n for n in res if not n.startswith("GRAIN") and not n.startswith("#")] or ["H+"]
            g = [n for n in names if n.startswith("GRAIN")]
            k = 2 * rng.randrange(len(g) // 2)
            res, prs = res[:1] + [g[k + 1]], [res[0].rstrip("+") or "H", g[k]]
        ices = [n for n in res + prs if n.startswith("#")]
        if len({(n[1] if n[1].isdigit() else "0") for n in ices}) > 1 or (ices and any(n.startswith("GRAIN") for n in res + prs)):
            # a reaction involves one grain population only
            keep = ices[0][:2] if ices[0][1].isdigit() else "#"
            res = [n for n in res if not n.startswith("#") or (n[:2] == keep if keep != "#" else not n[1].isdigit())]
            prs = [n for n in prs if not n.startswith("#") or (n[:2] == keep if keep != "#" else not n[1].isdigit())] or ["H"]
            res = [n for n in res if not n.startswith("GRAIN")] or ["H"]
            prs = [n for n in prs if not n.startswith("GRAIN")] or ["H"]
        reacs.append({"reactants": res, "products": prs, "idx": j + 1, "alpha": round(rng.uniform(0.5, 2), 3), "pseudo": None})
    used = {n for r in reacs for n in r["reactants"] + r["products"]}
    required = [n for n in names if n not in used and not n.startswith("GRAIN")]
    two_spellings = (not upper) and rng.random() < 0.5
    if two_spellings:
        feats.add("two_spellings")
    no_replacement = upper and i % 8 == 7          # the upper-case list used as it is, without a replacement table
    required_late = bool(required) and i % 3 == 1
    if required_late:
        feats.add("required_declared_late")
    return {"names": names, "reactions": reacs, "required": required, "upper": upper, "features": sorted(feats), "two_spellings": two_spellings, "required_late": required_late, "no_replacement": no_replacement,
            "cli": True, "enzo": i % 2 == 0}


def make_isotope_case(rng, i):
    """Digit-leading isotope symbols (user element list with 13C / 15N) as ice on two grain populations: '#13CO' (group 0) and '#113CO'
    (group 1) are two species with two identifiers."""
    iso, mol = rng.choice([("13C", "13CO"), ("15N", "15N2"), ("13C", "H13CN")])
    plain = {"13CO": "CO", "15N2": "N2", "H13CN": "HCN"}[mol]
    names = ["H", "H+", "e-", mol, plain, "#" + mol, "#1" + mol, "#" + plain, "#1" + plain, "GRAIN0", "GRAIN-", "GRAIN1", "GRAIN1-"]
    pairs = [([mol], ["#" + mol]), ([mol], ["#1" + mol]), (["#1" + mol], [mol]), ([plain], ["#" + plain]), ([plain], ["#1" + plain]), (["#1" + plain], [plain]),
             (["#" + mol], [mol]), (["H+", "GRAIN-"], ["H", "GRAIN0"]), (["H+", "GRAIN1-"], ["H", "GRAIN1"]), (["e-", "GRAIN0"], ["GRAIN-"]), (["e-", "GRAIN1"], ["GRAIN1-"])]
    rng.shuffle(pairs)
    reacs = [{"reactants": list(a), "products": list(b), "idx": j + 1, "alpha": round(rng.uniform(0.5, 2), 3), "pseudo": None} for j, (a, b) in enumerate(pairs)]
    return {"names": names, "reactions": reacs, "required": [], "upper": False, "features": ["isotope_two_groups", "ice", "grain_groups"], "two_spellings": False,
            "required_late": False, "cli": True, "enzo": i % 2 == 0, "isotopes": [iso]}


def gen_cases(tier):
    rng = common.rng_for(ID)
    n = 32 if tier == "quick" else 300
    cases = [make_case(random.Random(rng.getrandbits(64)), i) for i in range(n)]
    for i in range(3 if tier == "quick" else 30):
        cases.append(make_isotope_case(random.Random(rng.getrandbits(64)), i))
    return cases


UPPER_EL = ["E", "H", "D", "HE", "C", "N", "O", "MG", "SI", "S", "CL"]
UPPER_PS = ["CR", "CRP", "PHOTON", "CRPHOT"]
UPPER_RP = {"E": "e", "HE": "He", "MG": "Mg", "SI": "Si", "CL": "Cl"}


def run_case(case, ctx):
    from naunet import chemistrydata
    from naunet.network import Network
    from naunet.reactions.reaction import Reaction
    from naunet.reactiontype import ReactionType as RT
    from naunet.species import Species
    obs, viol = Counter(), []
    work = ctx.fresh_dir("i")
    for f in case["features"]:
        obs["tag_" + {"ice": "ice_both_prefixes"}.get(f, f)] += 1
    Species.reset()
    chemistrydata.update_binding_energy({n: 1000.0 for n in case["names"] if n.startswith("#")})
    chemistrydata.update_binding_energy({"G" + n[1:]: 1000.0 for n in case["names"] if n.startswith("#")})
    kw = {}
    if "two_grain_groups" in case["features"]:
        obs["tag_two_grain_groups"] += 0
    if case["upper"]:
        kw = dict(elements=list(UPPER_EL), pseudo_elements=list(UPPER_PS))
        if not case.get("no_replacement"):
            Species._replacement = dict(UPPER_RP)          # as `naunet render` installs them, before any species is created
        Species.set_known_elements(list(UPPER_EL))
        Species.set_known_pseudoelements(list(UPPER_PS))
    if case.get("isotopes"):
        el = list(chem.DEFAULT_ELEMENTS) + list(case["isotopes"])
        ps = ["CR", "CRP", "XRAY", "Photon", "PHOTON", "CRPHOT", "o", "p", "m"]
        kw = dict(elements=el, pseudo_elements=ps)
        Species.set_known_elements(list(el))
        Species.set_known_pseudoelements(list(ps))
    sample = {"names": case["names"], "features": case["features"], "cli": case["cli"], "enzo": case["enzo"]}

    def build():
        if case.get("isotopes"):
            # (after a Species.reset(): the user lists are installed before any species is created, as `naunet render` does)
            Species.set_known_elements(list(chem.DEFAULT_ELEMENTS) + list(case["isotopes"]))
            Species.set_known_pseudoelements(["CR", "CRP", "XRAY", "Photon", "PHOTON", "CRPHOT", "o", "p", "m"])
        rl = []
        for r in case["reactions"]:
            rl.append(Reaction(list(r["reactants"]), list(r["products"]), alpha=r["alpha"], reaction_type=RT.GAS_TWOBODY, idxfromfile=r["idx"]))
        if case.get("required_late") and case["required"]:
            # the species declared after the list has been read once (a report, a summary): they still get their slots
            net = Network(rl, **kw)
            _ = [s.alias for s in net.species]
            net.required_species = list(case["required"])
        else:
            net = Network(rl, required_species=case["required"] or None, **kw)
        if case["two_spellings"]:
            # the same species under other spellings, merged from files of other conventions
            p = work / "extra.leeds"
            lines = [encode.leeds_line({"reactants": ["H", "E-"], "products": ["H", "e-"], "idx": 901, "alpha": 1.0, "beta": 0.0, "gamma": 0.0, "tmin": 0, "tmax": 0, "rtype": 1})]
            if "#CO" in case["names"]:
                lines.append(encode.leeds_line({"reactants": ["GCO"], "products": ["CO"], "idx": 902, "alpha": 1.0, "beta": 0.0, "gamma": 0.0, "tmin": 0, "tmax": 0, "rtype": 1}))
            p.write_text("\n".join(lines) + "\n")
            net.add_reaction_from_file(str(p), "leeds")
        return net

    try:
        net = build()
        py_species = [(s.name, s.alias) for s in net.species]
        py_elements = [next(iter(s.element_count)) for s in net.elements]
    except Exception as e:
        return {"status": "violated", "violations": [violation("generator_raised", f"{type(e).__name__}: {e}", trace=traceback.format_exc()[-800:])], "obs": dict(obs), "sample": sample}
    # ---- identifier legality and uniqueness (Python-side view of what will be emitted)
    aliases = [a for _, a in py_species]
    bad = [a for a in aliases if not IDENT.match("IDX_" + a) or keyword.iskeyword("IDX_" + a)]
    if bad:
        w = {}
        if all(re.search(r"[*-]", a) for a in bad):
            w["mechanism"] = "C09/alias-keeps-star-and-dash"
        viol.append(violation("illegal_identifier", f"species aliases {bad} are not legal C/Python identifiers (IDX_{bad[0]})", aliases=bad, **w))
    if len(set(aliases)) != len(aliases):
        d = sorted({a for a in aliases if aliases.count(a) > 1})
        viol.append(violation("alias_collision", f"two species share the identifier(s) {d}: {[n for n, a in py_species if a in d]}"))
    classes = Counter()
    for n, _ in py_species:
        key = "<e>" if n.upper() in ("E", "E-") else ("#" + n[1:] if (n.startswith("G") and ("#" + n[1:]) in case["names"]) else n)
        classes[key] += 1
    dup = [k for k, c in classes.items() if c > 1]
    if dup:
        viol.append(violation("two_slots_for_one_species", f"{dup} occupy more than one slot: {[n for n, _ in py_species]}"))
    # every species named by a reaction or declared as required has a slot (and nothing else has): counted independently of the network object
    want = {("<e>" if n.upper() in ("E", "E-") else n) for r in case["reactions"] for n in r["reactants"] + r["products"]} | \
           {("<e>" if n.upper() in ("E", "E-") else n) for n in case["required"]}
    obs["species_sets_checked"] += 1
    if len(classes) != len(want):
        got_names = sorted(classes)
        viol.append(violation("species_without_slot" if len(classes) < len(want) else "slot_without_species",
                              f"{len(want)} species are named by the reactions / required list ({sorted(want)[:12]}...), the network lists {len(classes)} "
                              f"({got_names[:12]}...)", required_late=case.get("required_late")))
    legal_only = not bad
    # ---- render every back-end, compare artefacts
    for be in ("dense", "sparse", "odeint", "cusparse"):
        proj = work / be
        try:
            from . import structural as S
            S.render(net, be, proj)
        except Exception as e:
            viol.append(violation("generator_raised", f"render {be}: {type(e).__name__}: {e}", trace=traceback.format_exc()[-600:]))
            continue
        mac = lab.parse_macros(proj)
        obs["macro_sets_checked"] += 1
        names_in_macros = [ln.split()[1] for ln in mac["raw_idx_lines"] if not ln.split()[1].startswith("IDX_ELEM_") and ln.split()[1] != "IDX_TGAS"]
        if names_in_macros != ["IDX_" + a for a in aliases]:
            viol.append(violation("macro_order", f"{be}: macro names {names_in_macros[:8]} differ from network species aliases {aliases[:8]}"))
        if legal_only and be in ("dense", "odeint"):
            try:
                b = lab.build_cvode(proj, work / f"b_{be}", be, ctx.cache, core_only=True) if be == "dense" else lab.build_odeint(proj, work / f"b_{be}", ctx.cache, core_only=True)
                rr = lab.run_driver(b["exe"], ["info", "idx"], work / f"b_{be}")
                idx = rr.by_ev("idx")[0]
                info = rr.by_ev("info")[0]
                sp_vals = [idx.get("IDX_" + a) for a in aliases]
                if sp_vals != list(range(info["NSPECIES"])) or len(aliases) != info["NSPECIES"]:
                    viol.append(violation("macros_not_bijective", f"{be}: compiled IDX values {sp_vals} for NSPECIES={info['NSPECIES']}"))
                el_vals = [idx.get("IDX_ELEM_" + e) for e in py_elements]
                if el_vals != list(range(info["NELEMENTS"])):
                    w = {}
                    dupl = sorted({e for e in py_elements if py_elements.count(e) > 1})
                    ngr = [n for n, _ in py_species if n.startswith("GRAIN") and not n.endswith(("+", "-"))]
                    if dupl == ["GRAIN"] and len(ngr) >= 2:
                        w["mechanism"] = "C09/neutral-grains-of-several-groups-share-element-GRAIN"
                    viol.append(violation("element_macros_not_bijective", f"{be}: compiled IDX_ELEM values {el_vals} for NELEMENTS={info['NELEMENTS']} "
                                          f"(elements {py_elements})", **w))
                obs["compiled_macro_sets"] += 1
            except lab.BuildError as e:
                viol.append(violation("emitted_code_does_not_compile", f"{be}: {e.unit}: {'; '.join(e.diagnostics()[:2])}"))
        # python constants module
        ci = proj / "python" / "pynaunet_model" / "constant_indexes.py"
        try:
            ns = {}
            exec(compile(ci.read_text(), str(ci), "exec"), ns)
            cc = proj / "python" / "pynaunet_model" / "constants.py"
            exec(compile(cc.read_text(), str(cc), "exec"), ns)
            obs["python_modules_executed"] += 1
            if ns["ALL_SPECIES"] != [n for n, _ in py_species] or ns["ALL_ALIAS"] != aliases or ns["NSPEC"] != len(aliases):
                viol.append(violation("python_constants_disagree", f"{be}: constant_indexes.py ALL_SPECIES/ALL_ALIAS/NSPEC disagree with the C macros"))
            vals = [ns.get("IDX_" + a) for a in aliases]
            if vals != list(range(len(aliases))):
                viol.append(violation("python_constants_disagree", f"{be}: constant_indexes.py IDX_ values {vals}"))
            if ns["NELEM"] != len(py_elements) or ns["ALL_ELEMENTS"] != [s.name for s in net.elements]:
                viol.append(violation("python_constants_disagree", f"{be}: element tables {ns['ALL_ELEMENTS']} vs {py_elements}"))
        except SyntaxError as e:
            w = {"mechanism": "C09/alias-keeps-star-and-dash"} if bad else {}
            viol.append(violation("python_constants_not_importable", f"{be}: constant_indexes.py: {e.msg} at line {e.lineno}: {e.text.strip() if e.text else ''}", **w))
        except Exception as e:
            viol.append(violation("python_constants_not_importable", f"{be}: constant_indexes.py: {type(e).__name__}: {e}"))
    # ---- project summary through the API: another network (its own lists) is constructed in between, then this one is exported; summary,
    #      macros and Python constants of the exported project agree
    try:
        import tomlkit
        other = Network(elements=list(chem.DEFAULT_ELEMENTS), pseudo_elements=["CR", "CRP", "Photon", "PHOTON", "CRPHOT", "o", "p", "m"])
        _ = other.species
        net.export("exported", solver="cvode", method="dense", device="cpu", prefix=str(work), overwrite=True)
        ed = work / "exported"
        summ = tomlkit.loads((ed / "naunet_config.toml").read_text())["summary"]
        macc = lab.parse_macros(ed)
        mnames_e = [ln.split()[1][4:] for ln in macc["raw_idx_lines"] if not ln.split()[1].startswith("IDX_ELEM_") and ln.split()[1] != "IDX_TGAS"]
        obs["exported_summaries_checked"] += 1
        if list(summ["list_of_species_alias"]) != mnames_e:
            viol.append(violation("summary_disagrees", f"[summary] of the exported project lists aliases {list(summ['list_of_species_alias'])[:8]}, its macros "
                                  f"{mnames_e[:8]} (another network was constructed before the export)"))
    except Exception as e:
        if not bad:
            viol.append(violation("generator_raised", f"export: {type(e).__name__}: {e}", trace=traceback.format_exc()[-600:]))
    # ---- project summary through the CLI
    if case["cli"] and not case["two_spellings"]:
        d = work / "cli"
        d.mkdir()
        lines = [encode.naunet_line(dict(r, beta=0.0, gamma=0.0, tmin=-1.0, tmax=-1.0, type=100)) for r in case["reactions"]]
        (d / "net.naunet").write_text("\n".join(lines) + "\n")
        opts = {"network-files": "net.naunet", "file-formats": "naunet", "extra-species": ", ".join(case["required"]),
                "binding": ",".join(f"{n}=1000.0" for n in case["names"] if n.startswith("#"))}
        if case.get("isotopes"):
            opts.update({"elements": ", ".join(list(chem.DEFAULT_ELEMENTS) + list(case["isotopes"])),
                         "pseudo-elements": ", ".join(["CR", "CRP", "XRAY", "Photon", "PHOTON", "CRPHOT", "o", "p", "m"])})
        if case["upper"]:
            opts.update({"elements": ", ".join(UPPER_EL), "pseudo-elements": ", ".join(UPPER_PS),
                         "element-replacement": "" if case.get("no_replacement") else ", ".join(f"{k}:{v}" for k, v in UPPER_RP.items())})
        try:
            Species.reset()
            rc, out, err = clihelp.run_init(d, opts)
            import tomlkit
            summ = tomlkit.loads((d / "naunet_config.toml").read_text())["summary"]
            macc = lab.parse_macros(d)
            mnames = [ln.split()[1][4:] for ln in macc["raw_idx_lines"] if not ln.split()[1].startswith("IDX_ELEM_") and ln.split()[1] != "IDX_TGAS"]
            obs["summaries_checked"] += 1
            if list(summ["list_of_species_alias"]) != mnames or summ["num_of_species"] != macc["NSPECIES"] or len(summ["list_of_species"]) != macc["NSPECIES"]:
                viol.append(violation("summary_disagrees", f"[summary] aliases {list(summ['list_of_species_alias'])[:8]} / count {summ['num_of_species']} vs macros "
                                      f"{mnames[:8]} / {macc['NSPECIES']}"))
            if summ["num_of_elements"] != macc["NELEMENTS"] or summ["num_of_reactions"] != macc["NREACTIONS"]:
                viol.append(violation("summary_disagrees", f"[summary] elements/reactions {summ['num_of_elements']}/{summ['num_of_reactions']} vs macros "
                                      f"{macc['NELEMENTS']}/{macc['NREACTIONS']}"))
            # ---- the simulation-code patch rendered LATER, by another `naunet render --patch enzo` process (its own string-hash seed):
            #      its per-species tables must line up with the index macros of the project rendered above
            if case["enzo"]:
                import os, subprocess
                hs = str(1 + (sum(map(ord, "".join(case["names"]))) % 9))
                code = ("import sys, logging; logging.disable(logging.CRITICAL)\n"
                        "from pathlib import Path\nfrom verif import clihelp\n"
                        "rc, out, err = clihelp.run_command('render', '--patch enzo', Path('.'))\nsys.exit(3 if rc else 0)\n")
                env = dict(os.environ, PYTHONHASHSEED=hs, TQDM_DISABLE="1")
                cp = subprocess.run([common.PY, "-c", code], cwd=str(d), env=env, capture_output=True, text=True, timeout=300)
                eh = d / "enzo" / "naunet_enzo.h"
                if cp.returncode != 0 or not eh.exists():
                    viol.append(violation("generator_raised", f"naunet render --patch enzo (separate process) failed rc={cp.returncode}: {cp.stderr[-300:]}"))
                else:
                    txt = eh.read_text()
                    defs = [a for a, _ in re.findall(r"^#define A_(\S+) (\S+)\s*$", txt, flags=re.M)]
                    tm = re.search(r"A_Table\[NSPECIES\] = \{(.*?)\};", txt, flags=re.S)
                    table = [t.strip()[2:] for t in tm.group(1).replace("\n", " ").split(",") if t.strip()] if tm else None
                    obs["patch_from_second_process_checked"] += 1
                    if defs != mnames or table != mnames:
                        viol.append(violation("enzo_tables_disagree", f"patch rendered by a second process (PYTHONHASHSEED={hs}): A_ macros {defs[:8]} / A_Table "
                                              f"{(table or [])[:8]} vs index macros of the project {mnames[:8]}", hashseed=hs))
        except Exception as e:
            viol.append(violation("generator_raised", f"naunet init --render: {type(e).__name__}: {e}", trace=traceback.format_exc()[-600:]))
    # ---- Enzo patch tables
    if case["enzo"] and not case["upper"]:
        try:
            from naunet.patches import patch_factory
            Species.reset()
            chemistrydata.update_binding_energy({n: 1000.0 for n in case["names"] if n.startswith("#")})
            net2 = build()
            patch = patch_factory("enzo", "cpu")
            ed = work / "enzo"
            before = [(s.name, s.alias) for s in net2.species]
            patch.render(net2, templates=["naunet_enzo.h.j2", "Grid_NaunetWrapper.C.j2"], path=ed)
            after = [(s.name, s.alias) for s in net2.species]
            if after != before:
                ch = [(b, a) for b, a in zip(before, after) if a != b]
                viol.append(violation("patch_changed_network_aliases", f"rendering the Enzo patch changed the network's own species aliases: {ch[:4]}"))
            used = set(re.findall(r"\bIDX_(\w+)\b", (ed / "Grid_NaunetWrapper.C").read_text())) - {"TGAS"}
            macro_names = {a for _, a in before} | {"ELEM_" + e for e in py_elements}
            if not used <= macro_names:
                viol.append(violation("patch_uses_undefined_index", f"Grid_NaunetWrapper.C uses IDX_{sorted(used - macro_names)[:4]} which naunet_macros.h does not define"))
            txt = (ed / "naunet_enzo.h").read_text()
            defs = re.findall(r"^#define A_(\S+) (\S+)\s*$", txt, flags=re.M)
            table = re.search(r"A_Table\[NSPECIES\] = \{(.*?)\};", txt, flags=re.S).group(1).replace("\n", " ").split(",")
            table = [t.strip() for t in table if t.strip()]
            obs["enzo_tables_checked"] += 1
            n2 = [(s.name, s.massnumber, s.is_electron) for s in net2.species]
            if len(defs) != len(n2) or len(table) != len(n2):
                viol.append(violation("enzo_tables_disagree", f"naunet_enzo.h has {len(defs)} A_ macros / {len(table)} table entries for {len(n2)} species"))
            else:
                bad_id = [a for a, _ in defs if not IDENT.match("A_" + a)]
                if bad_id:
                    w = {"mechanism": "C09/alias-keeps-star-and-dash"} if all(re.search(r"[*-]", a) for a in bad_id) else {}
                    viol.append(violation("illegal_identifier", f"naunet_enzo.h macros {['A_' + a for a in bad_id]} are not identifiers", **w))
                if [a for a, _ in defs] != [a for _, a in before]:
                    viol.append(violation("enzo_tables_disagree", f"naunet_enzo.h A_ macros {[a for a, _ in defs][:6]} differ from the index macros {[a for _, a in before][:6]}"))
                if table != ["A_" + a for a, _ in defs]:
                    viol.append(violation("enzo_tables_disagree", f"A_Table order {table[:6]} differs from macro order {[a for a, _ in defs][:6]}"))
                for (a, v), (nm, A, el) in zip(defs, n2):
                    if float(v) != (1.0 if el else float(A)):
                        viol.append(violation("enzo_tables_disagree", f"A_{a} = {v} but species {nm} has mass number {A}"))
                        break
                if len({a for a, _ in defs}) != len(defs):
                    viol.append(violation("alias_collision", f"naunet_enzo.h defines a macro twice: {[a for a, _ in defs]}"))
        except Exception as e:
            viol.append(violation("generator_raised", f"enzo patch: {type(e).__name__}: {e}", trace=traceback.format_exc()[-600:]))
    Species.reset()
    return {"status": "violated" if viol else "held", "violations": viol[:8], "obs": dict(obs), "nontrivial": len(case["features"]) >= 3, "sample": sample}
