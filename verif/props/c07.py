"""C07 - reaction files of all six formats are decoded faithfully.

Deciding step: well-formed lines are *encoded* from abstract reactions by encoders written from
the format descriptions (never from naunet's parsers), assembled into files with blank,
whitespace-only, comment and directive lines, CRLF endings or a missing final newline, and read
by the real `Network(filelist=..., fileformats=...)`.  A monitor compares every parsed reaction
(reactant/product multisets, alpha/beta/gamma, window, index, type) with the abstract reaction
and the number/order of reactions with the data lines.
"""
from __future__ import annotations

import random
from collections import Counter

from .. import common
from ..common import violation
from ..gen import chem, encode

ID = "C07"
LEVEL = "exploration"
BATCH = 20
TIMEOUT = 60
USES_LAB = False
REQUIRED_OBS = ["lines_kida", "lines_umist", "lines_leeds", "lines_uclchem", "lines_krome", "lines_naunet", "files_with_blank_lines",
                "marker_tokens_seen", "fields_compared"]
RULE = ("per format: random abstract reactions (1-3 reactants, 0-5 products as the format allows, marker tokens, every "
        "type/formula/code, names from 1 char to the column limit, signed/zero/extreme coefficients, full-width numeric "
        "columns) encoded to lines; files of 3-25 lines with blank/whitespace/comment/directive lines, CRLF or missing "
        "final newline; non-trivial = file contains a marker token or a noise line; distinct by sha1 of the file text")
ASSUMPTIONS = ["encoders follow the published column layouts (KIDA kida.uva, RATE12, Walsh/Leeds, KROME, UCLCHEM Makerates, naunet README)",
               "type tables are the documented meaning of each format code"]

# documented meaning of the per-format codes -> naunet ReactionType value
KIDA_FORMULA = {1: 101, 2: 102, 3: 100, 4: 110, 5: 111, 6: 103}
UMIST_CODE = {"AD": 100, "CD": 100, "CE": 100, "CP": 101, "CR": 120, "DR": 100, "IN": 100, "MN": 100, "NN": 100, "PH": 102,
              "RA": 100, "REA": 100, "RR": 100}
LEEDS_TYPE = {1: 100, 2: 101, 3: 120, 4: 102, 5: 130, 6: 220, 7: 200, 8: 201, 9: 202, 10: 203, 11: 301, 12: 302, 13: 300,
              14: 204, 20: 221}
UCL_MARKER = {"CRP": 101, "PHOTON": 102, "CRPHOT": 120, "FREEZE": 200, "DESOH2": 210, "DESCR": 202, "DEUVCR": 203, "THERM": 201,
              "DIFF": 310, "CHEMDES": 204}
MARKERS = {"kida": ["CR", "CRP", "Photon"], "umist": ["CRP", "PHOTON", "CRPHOT"], "leeds": ["CRP", "PHOTON", "CRPHOT", "XRAY"],
           "uclchem": list(UCL_MARKER), "naunet": ["CR", "CRP", "PHOTON", "CRPHOT"], "krome": []}
NAMEW = {"kida": 10, "umist": 14, "leeds": 9, "uclchem": 14, "naunet": 12, "krome": 14}


def rand_name(rng, pool, maxw, fmt):
    for _ in range(50):
        sp = rng.choice(pool)
        n = sp["name"]
        if fmt == "leeds" and n.startswith("#"):
            n = "G" + n[1:]
        if len(n) <= maxw:
            return n
    return "H"


def long_name(rng, maxw):
    """a name that fills the column to its limit, e.g. C10H12N2O+ style formulas"""
    for _ in range(200):
        parts = chem.random_parts(rng, ["C", "H", "N", "O", "S", "Si"], max_el=3, max_count=3)
        parts = [(e, rng.choice([n, 10 + n, 12])) for e, n in parts]
        sp = chem.make_species(parts, charge=rng.choice([0, 1]))
        if len(sp["name"]) == maxw and chem.unambiguous(sp):
            return sp["name"]
    return None


def rand_coeff(rng, signed=True):
    k = rng.random()
    if k < 0.1:
        return 0.0
    if k < 0.2:
        return float(rng.randint(1, 9)) * (-1 if signed and rng.random() < 0.3 else 1)
    if k < 0.3:
        return rng.choice([1e-300, 1e300, 9.999e99, 1e-99]) * (-1 if signed and rng.random() < 0.3 else 1)
    m = rng.uniform(1, 9.999) * 10 ** rng.randint(-30, 12)
    return -m if signed and rng.random() < 0.25 else m


def make_reaction(rng, fmt, pool, idx):
    mr, mp = encode.LIMITS[fmt]
    w = NAMEW[fmt]
    marker = rng.choice(MARKERS[fmt]) if MARKERS[fmt] and rng.random() < 0.3 else None
    nre = rng.randint(1, mr - (1 if marker else 0))
    npr = rng.randint(0 if fmt not in ("umist",) else 1, mp)
    res = [rand_name(rng, pool, w, fmt) for _ in range(nre)]
    prs = [rand_name(rng, pool, w, fmt) for _ in range(npr)]
    if rng.random() < 0.25 and nre >= 2:
        res[1] = res[0]
    if rng.random() < 0.2 and npr >= 2:
        prs[1] = prs[0]
    if rng.random() < 0.15 and fmt in ("kida", "leeds", "naunet"):
        ln = long_name(rng, w)
        if ln:
            tgt = prs if prs and rng.random() < 0.5 else res
            tgt[rng.randrange(len(tgt))] = ln
            if rng.random() < 0.5:
                tgt[-1] = ln        # the last column of its group: the one a short slice would cut
    r = {"reactants": res, "products": prs, "idx": idx, "tmin": float(rng.choice([-9999, 0, 5, 10, 300])),
         "tmax": float(rng.choice([9999, 300, 41000, 20000, 0]))}
    if fmt == "kida":
        r["pseudo"] = marker
        r.update(alpha=rand_coeff(rng), beta=rand_coeff(rng), gamma=rand_coeff(rng), formula=rng.randint(1, 6), itype=rng.randint(1, 8))
        r["tmin"], r["tmax"] = float(rng.choice([-9999, 10, 5])), float(rng.choice([9999, 300, 800]))
        for k in ("alpha", "beta", "gamma"):
            if abs(r[k]) >= 1e100 or (0 < abs(r[k]) < 1e-99):
                r[k] = 1.234e-10     # e10.3 cannot hold 3-digit exponents
        r["expect_type"] = KIDA_FORMULA[r["formula"]]
        r["expect_num"] = {k: float(f"{r[k]:10.3e}") for k in ("alpha", "beta", "gamma")}
    elif fmt == "umist":
        r["pseudo"] = marker
        r.update(alpha=rand_coeff(rng), beta=rand_coeff(rng), gamma=rand_coeff(rng), code=rng.choice(sorted(UMIST_CODE)))
        r["expect_type"] = UMIST_CODE[r["code"]]
        r["expect_num"] = {k: r[k] for k in ("alpha", "beta", "gamma")}
    elif fmt == "leeds":
        r["pseudo"] = marker
        a = abs(rand_coeff(rng, signed=False))
        a = float(f"{min(max(a, 1e-99), 9.99e99):.2E}") if a else 0.0
        b = round(rng.choice([0.0, rng.uniform(-9, 9), -12345.67, 99999.99]), 2)
        c = round(rng.choice([0.0, rng.uniform(0, 1e5), -1234567.8, 99999999.9]), 1)
        r.update(alpha=a, beta=b, gamma=c, rtype=rng.choice(sorted(LEEDS_TYPE)))
        r["tmin"], r["tmax"] = float(rng.choice([0, 5, 10, 100, 99999])), float(rng.choice([0, 100, 3000, 41000, 99999]))
        r["idx"] = rng.choice([idx, 99999 - idx, 10000 + idx])
        r["expect_type"] = LEEDS_TYPE[r["rtype"]]
        r["expect_num"] = {"alpha": float(f"{a:.2E}"), "beta": b, "gamma": c}
    elif fmt == "uclchem":
        r["marker"] = marker
        r.update(alpha=rand_coeff(rng), beta=rand_coeff(rng), gamma=rand_coeff(rng))
        r["expect_type"] = UCL_MARKER.get(marker, 100)
        r["expect_num"] = {k: r[k] for k in ("alpha", "beta", "gamma")}
        r["idx"] = -1
        if marker == "FREEZE":
            r["expect_window"] = (0.0, 30.0)     # documented override: freeze-out is switched off above 30 K
    elif fmt == "naunet":
        r["pseudo"] = marker
        r.update(alpha=rand_coeff(rng), beta=rand_coeff(rng), gamma=rand_coeff(rng),
                 type=rng.choice([100, 101, 102, 103, 110, 111, 120, 130, 200, 201, 202, 203, 204, 210, 220, 221, 300, 301, 302, 310, 999]),
                 source=rng.choice(["kida", "umist", "verif", "unknown"]))
        for k in ("alpha", "beta", "gamma"):
            if abs(r[k]) >= 1e100 or (0 < abs(r[k]) < 1e-99):
                r[k] = -4.321e-11
        r["tmin"], r["tmax"] = rng.choice([-9999.0, -1.0, 10.0, 123.45]), rng.choice([9999.0, -1.0, 41000.0, 300.25])
        r["expect_type"] = r["type"]
        r["expect_num"] = {k: float(f"{r[k]:10.3e}") for k in ("alpha", "beta", "gamma")}
    elif fmt == "krome":
        r["rate"] = rng.choice(["1.5d-10", "2.3e-9*(T32)**(-0.5)", "4.67d-10*exp(-3.04d4*invT)", "1.0e-17*sqrt(Tgas)", "3.d-9"])
        style = rng.choice(["num", "num", "ops", "none", "dexp"])
        tmin, tmax = float(rng.choice([2, 10, 100])), float(rng.choice([1000, 41000, 1e4]))
        r["tmin"], r["tmax"] = tmin, tmax
        if style == "ops":
            r["tmin_s"], r["tmax_s"] = rng.choice([">", ".GE.", ".GT."]) + encode._num(tmin), rng.choice(["<", ".LE.", ".LT."]) + encode._num(tmax)
        elif style == "none":
            r["tmin_s"], r["tmax_s"] = rng.choice(["NONE", "N", "none", ""]), rng.choice(["NONE", "N", "no", ""])
            r["tmin"], r["tmax"] = -1.0, -1.0
        elif style == "dexp":
            r["tmin_s"], r["tmax_s"] = f"{tmin / 10:.1f}d1".replace(".0d", ".d"), f"{tmax / 100:.2f}d2"
        if rng.random() < 0.15:
            # a lower limit of exactly zero is a limit (0 K), not "no limit"
            r["tmin"] = 0.0
            r["tmin_s"] = rng.choice(["0", "0.0", ">0.0", "0d0", ".GE.0", "0.d0"])
        r["expect_type"] = 999
        r["expect_num"] = {}
    return r


def make_file(rng, fmt):
    pool = chem.species_pool(rng, 14, ions=True, surface=(fmt in ("leeds", "uclchem", "naunet", "krome")), labels=True)
    n = rng.randint(3, 25)
    reacs = [make_reaction(rng, fmt, pool, i + 1) for i in range(n)]
    lines, datalines = [], []
    kfmt = None
    if fmt == "krome":
        nre, npr = rng.randint(2, 3), rng.randint(2, 5)
        reacs = [r for r in reacs if len(r["reactants"]) <= nre and len(r["products"]) <= npr] or reacs[:0]
        # column layouts the @format directive allows: index / temperature columns may be absent or come first
        layout = rng.choice(["full", "full", "no_idx", "no_T", "T_first", "idx_T_first"])
        rp = ["R"] * nre + ["P"] * npr
        cols = {"full": ["idx"] + rp + ["Tmin", "Tmax", "rate"], "no_idx": rp + ["Tmin", "Tmax", "rate"], "no_T": ["idx"] + rp + ["rate"],
                "T_first": ["Tmin", "Tmax"] + rp + ["rate"], "idx_T_first": ["idx", "Tmin", "Tmax"] + rp + ["rate"]}[layout]
        for r in reacs:
            if "idx" not in cols:
                r["idx"] = -1
            if "Tmin" not in cols:
                r["tmin"], r["tmax"] = -1.0, -1.0
        if cols[0] == "R":
            # '#' at the start of a line is KROME's comment marker: a line cannot begin with an ice species
            keep = []
            for r in reacs:
                first = [x for x in r["reactants"] if not x.startswith("#")]
                if first:
                    r["reactants"] = [first[0]] + [x for i, x in enumerate(r["reactants"]) if i != r["reactants"].index(first[0])]
                    keep.append(r)
            reacs = keep
        kfmt = ",".join(cols)
        lines.append(rng.choice(["#An artificial network", "// comment"]))
        lines.append("@format:" + (kfmt if rng.random() < 0.5 else kfmt.lower()))
        if rng.random() < 0.5:
            lines.append("@common:user_crate,user_Av")
            lines.append("@var:Hnuclei = get_Hnuclei(n(:))")
            lines.append("@var:Te = Tgas*8.617343d-5")
        for r in reacs:
            lines.append(encode.krome_line_cols(r, cols, r.get("tmin_s"), r.get("tmax_s")))
            datalines.append(r)
            if rng.random() < 0.15:
                lines.append(rng.choice(["#comment in the middle", "//another", "@var:invTe = 1d0/Te"]))
    else:
        for r in reacs:
            lines.append(encode.LINE[fmt](r))
            datalines.append(r)
    noise = rng.choice(["none", "blank", "blank", "spaces", "mixed"])
    if noise != "none":
        k = rng.randint(1, 4)
        for _ in range(k):
            pos = rng.randint(0 if fmt != "krome" else 2, len(lines))
            lines.insert(pos, {"blank": "", "spaces": rng.choice(["   ", "\t", " \t "]), "mixed": rng.choice(["", "    ", "\t"])}[noise])
    eol = rng.choice(["\n", "\n", "\n", "\r\n"])
    final_nl = rng.random() < 0.8
    text = eol.join(lines) + (eol if final_nl else "")
    return {"format": fmt, "text": text, "reactions": datalines, "noise": noise, "eol": "crlf" if eol == "\r\n" else "lf", "final_nl": final_nl,
            "krome_layout": layout if fmt == "krome" else None}


FORMATS = ["kida", "umist", "leeds", "uclchem", "krome", "naunet"]


def gen_cases(tier):
    rng = common.rng_for(ID)
    n = 240 if tier == "quick" else 6000
    cases = []
    for i in range(n):
        r = random.Random(rng.getrandbits(64))
        cases.append(make_file(r, FORMATS[i % len(FORMATS)]))
    return cases


def run_case(case, ctx):
    from naunet.network import Network
    from naunet.species import Species
    obs, viol = Counter(), []
    fmt = case["format"]
    d = ctx.fresh_dir("f")
    p = d / f"net.{fmt}"
    with open(p, "w", newline="") as f:
        f.write(case["text"])
    Species.reset()
    try:
        net = Network(filelist=str(p), fileformats=fmt)
    except Exception as e:
        import traceback
        viol.append(violation("reader_raised", f"{fmt}: {type(e).__name__}: {e} (noise={case['noise']}, eol={case['eol']})",
                              mechanism_hint=case["noise"], trace=traceback.format_exc()[-800:]))
        return {"status": "violated", "violations": viol, "obs": dict(obs), "nontrivial": True,
                "sample": {"format": fmt, "first_line": case["text"].splitlines()[0] if case["text"] else ""}}
    exp = case["reactions"]
    got = net.reaction_list
    obs["lines_" + fmt] += len(exp)
    if case.get("krome_layout"):
        obs["krome_layout_" + case["krome_layout"]] += 1
    if case["noise"] != "none":
        obs["files_with_blank_lines"] += 1
    if len(got) != len(exp):
        empties = sum(1 for g in got if not g.reactants and not g.products)
        viol.append(violation("reaction_count", f"{fmt}: {len(exp)} data lines but {len(got)} reactions ({empties} empty ones; noise={case['noise']})",
                              empties=empties, noise=case["noise"], format=fmt))
        got = [g for g in got if g.reactants or g.products] if len(got) - empties == len(exp) else got
    markers = set(sum(MARKERS.values(), [])) | {"NAN"}
    for li, (e, g) in enumerate(zip(exp, got)):
        gr = sorted(s.name for s in g.reactants)
        gp = sorted(s.name for s in g.products)
        er, ep = sorted(e["reactants"]), sorted(e["products"])
        if fmt == "leeds":
            er = [x.replace("YC", "CH2OHC") for x in er]
            ep = [x.replace("YC", "CH2OHC") for x in ep]
        if e.get("pseudo") or e.get("marker"):
            obs["marker_tokens_seen"] += 1
        obs["fields_compared"] += 8
        if any(n in markers for n in gr + gp):
            viol.append(violation("marker_became_species", f"{fmt} line {li}: {gr} -> {gp}", line=encode_line(case, li)))
        if gr != er or gp != ep:
            viol.append(violation("species_mismatch", f"{fmt} line {li}: expected {er} -> {ep}, parsed {gr} -> {gp}", line=encode_line(case, li)))
            continue
        for k, v in e["expect_num"].items():
            if getattr(g, k) != v:
                viol.append(violation("coefficient_mismatch", f"{fmt} line {li}: {k} expected {v!r} parsed {getattr(g, k)!r}", line=encode_line(case, li)))
        tmin, tmax = e.get("expect_window", (e["tmin"], e["tmax"]))
        if fmt in ("kida", "leeds"):
            tmin, tmax = float(int(tmin)), float(int(tmax))
        if fmt == "naunet":
            tmin, tmax = float(f"{tmin:9.2f}"), float(f"{tmax:9.2f}")
        if (g.temp_min, g.temp_max) != (tmin, tmax):
            viol.append(violation("window_mismatch", f"{fmt} line {li}: window expected ({tmin},{tmax}) parsed ({g.temp_min},{g.temp_max})", line=encode_line(case, li)))
        if g.idxfromfile != e["idx"]:
            viol.append(violation("index_mismatch", f"{fmt} line {li}: index expected {e['idx']} parsed {g.idxfromfile}", line=encode_line(case, li)))
        if g.reaction_type is None:
            viol.append(violation("type_mismatch", f"{fmt} line {li}: no reaction type decoded (expected {e['expect_type']})", line=encode_line(case, li)))
        elif int(g.reaction_type) != e["expect_type"]:
            viol.append(violation("type_mismatch", f"{fmt} line {li}: type expected {e['expect_type']} parsed {int(g.reaction_type)}", line=encode_line(case, li)))
        if fmt == "krome" and getattr(g, "rate_string", None) != e["rate"].replace("dexp", "exp"):
            viol.append(violation("rate_text_mismatch", f"krome line {li}: rate {e['rate']!r} parsed {g.rate_string!r}"))
    nontrivial = case["noise"] != "none" or any(e.get("pseudo") or e.get("marker") for e in exp)
    sample = {"format": fmt, "noise": case["noise"], "eol": case["eol"], "lines": case["text"].splitlines()[:3]}
    return {"status": "violated" if viol else "held", "violations": viol[:8], "obs": dict(obs), "nontrivial": nontrivial, "sample": sample}


def encode_line(case, li):
    try:
        e = case["reactions"][li]
        if case["format"] == "krome":
            return str(e)
        return encode.LINE[case["format"]](e)
    except Exception:
        return None
