"""C18 - writing a network and reading it back preserves the model.

Deciding step: (A) networks read from every input format or built through the API are written by
the real `Network.write(..., "naunet")`, read back, compared field by field and written again
(second cycle must be byte-identical); (B) the same networks are exported with
`Network.export`, re-rendered from their own files with `naunet render`, and both the direct
and the re-rendered project are compiled and their EvalRates compared on parameter points: a
different coefficient without an error is a violation.
"""
from __future__ import annotations

import random
import re
import traceback
from collections import Counter

from .. import clihelp, common
from ..common import close, violation
from ..cxx import lab
from ..gen import encode
from ..ref import ratelaws
from . import c05

ID = "C18"
LEVEL = "exploration"
BATCH = 1
TIMEOUT = 600
REQUIRED_OBS = ["reactions_round_tripped", "second_cycles_checked", "exports_rerendered", "rates_compared_after_export", "src_kida", "src_umist",
                "src_leeds", "src_uclchem", "src_naunet", "src_api", "edited_then_written_checked", "five_product_reactions"]
RULE = ("networks of 8-25 gas-phase reactions read from kida / umist / leeds / uclchem / native files (every gas-phase type, signed, zero "
        "and extreme coefficients, windows) or built through the API; write -> read -> write; export (cvode dense) -> `naunet render` "
        "-> compile -> EvalRates at 3 parameter points vs the direct rendering; non-trivial = network has a non two-body type; distinct "
        "by sha1 of the case")
ASSUMPTIONS = ["printed precision of the exchange format: 10.3e for coefficients, 9.2f for the window", "rate comparison tolerance 2e-3 relative (coefficients are "
               "rounded to 4 significant digits by the exchange format) unless the type's law changed"]

SRC = ["kida", "umist", "leeds", "uclchem", "naunet", "api"]


def gen_cases(tier):
    rng = common.rng_for(ID)
    n = 30 if tier == "quick" else 360
    cases = []
    for i in range(n):
        r = random.Random(rng.getrandbits(64))
        src = SRC[i % 6]
        c = c05.make_case(r, src if src != "api" else "naunet")
        for x in c["reactions"]:
            x.pop("shielded", None)
            if x.get("rtype") in (4, 12) and x["reactants"][0] in ("H2", "CO", "N2", "GH2", "GCO", "GN2"):
                x["reactants"] = ["OH"]
            if x.get("co_special"):
                x["reactants"], x["products"] = ["OH"], ["O", "H"]
                x.pop("co_special")
            # windows so that the round trip of 9.2f is exercised
            if src in ("umist", "uclchem", "naunet", "api") and r.random() < 0.4:
                x["tmin"], x["tmax"] = round(r.uniform(5, 50), 2), round(r.uniform(100, 4e4), 2)
            elif src in ("kida", "leeds") and r.random() < 0.4:
                x["tmin"], x["tmax"] = float(r.randint(5, 50)), float(r.randint(100, 40000))
        if src == "leeds" and i % 12 != 2:
            for x in c["reactions"]:
                if x.get("rtype") in range(15, 20):
                    x["rtype"] = 1           # most Leeds cases avoid the unmapped types 15-19 (known finding) so that the round trip itself is exercised
        if src == "leeds" and i % 12 != 8:
            for x in c["reactions"]:
                if x.get("rtype") in (11, 12):
                    x["rtype"] -= 8          # gas-phase counterpart types 3 / 4; ice species under prefix 'G' are a known finding
                    x["reactants"] = ["OH"]
                x["reactants"] = [n for n in x["reactants"] if not n.startswith("G")] or ["OH"]
                x["products"] = [n for n in x["products"] if not n.startswith("G")] or ["O"]
        # reactions that fill every product column of the exchange format (5) where the source format allows it
        maxp = {"kida": 5, "leeds": 5, "naunet": 5, "api": 5, "uclchem": 4, "umist": 4}[src]
        for x in r.sample(c["reactions"], min(3, len(c["reactions"]))):
            if not x.get("co_special") and x.get("marker") is None:
                pool_names = sorted({n for y in c["reactions"] for n in y["products"]} | {"H", "H2"})
                x["products"] = [r.choice(pool_names) for _ in range(r.choice([maxp, maxp, maxp - 1]))]
        c["src"] = src
        c["export"] = True
        cases.append(c)
    # KROME sources: free-form rate expressions cannot be held by the exchange format (type 999, coefficients 0): the write/read
    # cycle must still reproduce what was written, and an exported project must be refused at re-rendering, not computed with other rates
    for i in range(max(2, n // 10)):
        r = random.Random(rng.getrandbits(64))
        pts = c05.make_case(r, "kida")["points"]
        rates = ["1.0d-17*sqrt(Tgas)", "2.3d-9*(T32)**(-0.5)*exp(-1.0d4*invT)", "4.69d-19*(T32)**1.52*exp(50.5*invT)", "3.5d-12*(T32)**(-0.7)", "1.5d-10", "7.0d-8*invT + 2.0d-12"]
        species = ["H", "H2", "H+", "e-", "C", "O", "CO", "C+", "He", "He+"]
        reacs = []
        for j in range(r.randint(3, 8)):
            tw = r.choice([(-1.0, -1.0), (10.0, 1.0e4), (-1.0, 5.5e3), (300.0, -1.0)])
            reacs.append({"reactants": [r.choice(species) for _ in range(r.choice([1, 2, 2]))], "products": [r.choice(species) for _ in range(r.choice([1, 2, 3]))],
                          "idx": j + 1, "tmin": tw[0], "tmax": tw[1], "rate": r.choice(rates), "alpha": 0.0, "beta": 0.0, "gamma": 0.0, "type": 999})
        cases.append({"format": "krome", "src": "krome", "reactions": reacs, "points": pts, "export": True})
    for i in range(3 if tier == "quick" else 40):
        cases.append(make_ice_tables_case(random.Random(rng.getrandbits(64))))
    return cases


def build(case, work):
    from naunet.network import Network
    from naunet.reactions.reaction import Reaction
    from naunet.reactiontype import ReactionType as RT
    from naunet.species import Species
    Species.reset()
    src = case["src"]
    if src == "api":
        rl = []
        for r in case["reactions"]:
            o = Reaction(list(r["reactants"]) + ([r["pseudo"]] if r.get("pseudo") else []), list(r["products"]), temp_min=r["tmin"], temp_max=r["tmax"],
                         alpha=r["alpha"], beta=r["beta"], gamma=r["gamma"], reaction_type=RT(r["type"]), idxfromfile=r["idx"])
            rl.append(o)
        return Network(rl)
    fmt = case["format"]
    p = work / f"in.{fmt}"
    if fmt == "krome":
        cols = ["idx", "R", "R", "P", "P", "P", "Tmin", "Tmax", "rate"]
        p.write_text("@format:" + ",".join(cols) + "\n" + "\n".join(
            encode.krome_line_cols(r, cols, "NONE" if r["tmin"] <= 0 else None, "NONE" if r["tmax"] <= 0 else None) for r in case["reactions"]) + "\n")
        return Network(filelist=str(p), fileformats=fmt)
    p.write_text("\n".join(encode.LINE[fmt](r) for r in case["reactions"]) + "\n")
    kw = {}
    if fmt == "leeds":
        kw["shielding"] = dict(c05.SHIELD)
    if fmt == "uclchem":
        kw["shielding"] = {"CO": "VB88Table"}
    return Network(filelist=str(p), fileformats=fmt, **kw)


def make_ice_tables_case(rng):
    """Native reactions on hh93 grains with USER binding energies / photodesorption yields that differ from the tabulated values: the exported
    project, re-rendered by another process that knows nothing but the project's own files, carries the same values."""
    gas = rng.sample(["CO", "H2O", "CH4", "NH3", "CO2", "N2"], rng.randint(2, 4))
    eb = {"#" + g: round(rng.uniform(900.0, 6000.0), 1) for g in gas if rng.random() < 0.8}
    if not eb:
        eb = {"#" + gas[0]: 1234.5}
    yl = {"#" + g: rng.choice([1e-3, 2.7e-3, 0.05]) for g in gas if rng.random() < 0.5}
    return {"src": "ice_tables", "format": "naunet", "gas": gas, "eb": eb, "yield": yl, "reactions": [], "export": False}


def run_ice_tables(case, ctx):
    import os, subprocess
    from naunet import chemistrydata
    from naunet.network import Network
    from naunet.reactions.reaction import Reaction
    from naunet.reactiontype import ReactionType as RT
    from naunet.species import Species
    obs, viol = Counter(), []
    work = ctx.fresh_dir("it")
    obs["src_ice_tables"] += 1
    Species.reset()
    chemistrydata.update_binding_energy(dict(case["eb"]))
    chemistrydata.update_photon_yield(dict(case["yield"]))
    rl, i = [], 0
    for g in case["gas"]:
        for res, prs, t in (([g], ["#" + g], RT.GRAIN_FREEZE), (["#" + g], [g], RT.GRAIN_DESORB_THERMAL)):
            i += 1
            rl.append(Reaction(res, prs, -1, -1, 1.0, 0.0, 0.0, t, idxfromfile=i))
    try:
        net = Network(rl, grain_model="hh93")
        net.export("proj", solver="cvode", method="dense", device="cpu", prefix=str(work), overwrite=True)
    except Exception as e:
        return {"status": "violated", "violations": [violation("export_raised", f"ice network with user tables: {type(e).__name__}: {e}", trace=traceback.format_exc()[-600:])], "obs": dict(obs)}
    proj = work / "proj"
    def consts():
        txt = (proj / "src" / "naunet_constants.cpp").read_text()
        return dict(re.findall(r"double (eb_\w+)\s*=\s*([-+0-9.eE]+);", txt))
    def rates():
        return [" ".join(l.split()) for l in (proj / "src" / "naunet_rates.cpp").read_text().splitlines() if "k[" in l]
    c0, r0 = consts(), rates()
    for g in case["gas"]:
        want = case["eb"].get("#" + g)
        if want is not None and float(c0.get(f"eb_G{g}I", "nan")) != want:
            viol.append(violation("direct_render_ignores_user_table", f"eb_G{g}I = {c0.get(f'eb_G{g}I')} in the exported sources, user table says {want}"))
    # re-render from the project's own files in a fresh interpreter (the user tables of this process are not there)
    env = dict(os.environ, TQDM_DISABLE="1")
    code = "import sys, logging; logging.disable(logging.CRITICAL)\nfrom pathlib import Path\nfrom verif import clihelp\nrc, o, e = clihelp.run_command('render', '--force', Path('.'))\nsys.exit(3 if rc else 0)\n"
    cp = subprocess.run([common.PY, "-c", code], cwd=str(proj), env=env, capture_output=True, text=True, timeout=300, stdin=subprocess.DEVNULL)
    if cp.returncode != 0:
        obs["rerender_refused_with_error"] += 1          # refused with an error: allowed
        return {"status": "held", "violations": viol, "obs": dict(obs), "nontrivial": True, "sample": {"source": "ice_tables", "refused": cp.stderr[-200:]}}
    obs["ice_table_projects_rerendered"] += 1
    c1, r1 = consts(), rates()
    if c1 != c0:
        diff = {k: (c0.get(k), c1.get(k)) for k in sorted(set(c0) | set(c1)) if c0.get(k) != c1.get(k)}
        viol.append(violation("rate_changed_by_export", f"ice network with user binding energies {case['eb']}: re-rendered by a fresh process the constants are {diff} "
                              f"(direct, re-rendered)"))
    if r1 != r0:
        k = next((i for i, (a, b) in enumerate(zip(r0, r1)) if a != b), -1)
        viol.append(violation("rate_changed_by_export", f"ice network with user yields {case['yield']}: rate statement {k} differs after export + re-render: "
                              f"{r0[k][:120] if k >= 0 else len(r0)} vs {r1[k][:120] if k >= 0 else len(r1)}"))
    return {"status": "violated" if viol else "held", "violations": viol[:6], "obs": dict(obs), "nontrivial": True,
            "sample": {"source": "ice_tables", "eb": case["eb"], "yield": case["yield"]}}


def run_case(case, ctx):
    if case.get("src") == "ice_tables":
        return run_ice_tables(case, ctx)
    from naunet.network import Network
    from naunet.species import Species
    obs, viol = Counter(), []
    work = ctx.fresh_dir("x")
    obs["src_" + case["src"]] += 1
    sample = {"source": case["src"], "n": len(case["reactions"])}
    try:
        net = build(case, work)
    except Exception as e:
        return {"status": "violated", "violations": [violation("generator_raised", f"build: {type(e).__name__}: {e}", trace=traceback.format_exc()[-800:])], "obs": dict(obs)}
    orig = [(sorted(s.name for s in r.reactants), sorted(s.name for s in r.products), r.temp_min, r.temp_max,
             int(r.reaction_type) if r.reaction_type is not None else None, r.idxfromfile, r.source, r.alpha, r.beta, r.gamma) for r in net.reaction_list]
    untyped = [i for i, o in enumerate(orig) if o[4] is None]
    obs["five_product_reactions"] += sum(1 for o in orig if len(o[1]) == 5)
    # ---------------- (A) write / read / write
    try:
        f1 = work / "w1.naunet"
        net.write(str(f1), "naunet")
        sample["written_lines"] = f1.read_text().splitlines()[:2]
        Species.reset()
        net2 = Network(filelist=str(f1), fileformats="naunet")
        back = [(sorted(s.name for s in r.reactants), sorted(s.name for s in r.products), r.temp_min, r.temp_max, int(r.reaction_type), r.idxfromfile, r.source,
                 r.alpha, r.beta, r.gamma) for r in net2.reaction_list]
        if len(back) != len(orig):
            viol.append(violation("reaction_count_changed", f"{case['src']}: {len(orig)} reactions written, {len(back)} read back"))
        for i, (o, b) in enumerate(zip(orig, back)):
            obs["reactions_round_tripped"] += 1
            exp = (o[0], o[1], float(f"{o[2]:9.2f}"), float(f"{o[3]:9.2f}"), o[4], o[5], o[6], float(f"{o[7]:10.3e}"), float(f"{o[8]:10.3e}"), float(f"{o[9]:10.3e}"))
            names = ("reactants", "products", "temp_min", "temp_max", "type", "index", "source", "alpha", "beta", "gamma")
            for k, (a, bb) in enumerate(zip(exp, b)):
                if a != bb:
                    w = {}
                    if names[k] == "source" and isinstance(bb, str) and bb.strip() == a:
                        w["mechanism"] = "C18/source-tag-read-back-with-padding-and-newline"
                    viol.append(violation("field_changed_by_round_trip", f"{case['src']} reaction {i}: {names[k]} {a!r} -> {bb!r}", field=names[k], **w))
                    break
        f2 = work / "w2.naunet"
        net2.write(str(f2), "naunet")
        obs["second_cycles_checked"] += 1
        if f2.read_bytes() != f1.read_bytes():
            a, b = f1.read_text().splitlines(), f2.read_text().splitlines()
            w = {}
            if [l for l in b if l.strip()] == [l.rstrip() for l in a] or len(b) > len(a):
                w["mechanism"] = "C18/source-tag-read-back-with-padding-and-newline"
            viol.append(violation("second_cycle_not_identical", f"{case['src']}: second write differs from the first ({len(a)} vs {len(b)} lines)", **w))
        # the usual cycle goes back to the SAME path: writing onto an existing file replaces it
        first = f1.read_bytes()
        net2.write(str(f1), "naunet")
        obs["rewrites_onto_existing_file"] += 1
        if f1.read_bytes() != first:
            viol.append(violation("rewrite_onto_existing_file_differs", f"{case['src']}: writing the read-back network onto the existing file gives "
                                  f"{len(f1.read_text().splitlines())} lines, a fresh file {len(first.decode().splitlines())}"))
        Species.reset()
        net3 = Network(filelist=str(f2), fileformats="naunet")
        # ---- a network read from the exchange format, then edited through the API, must be written as edited
        if net3.reaction_list:
            net3.reindex()
            r0 = net3.reaction_list[0]
            r0.alpha = 4.321e-7
            r0.temp_max = 777.25
            f3 = work / "w3.naunet"
            net3.write(str(f3), "naunet")
            Species.reset()
            net4 = Network(filelist=str(f3), fileformats="naunet")
            obs["edited_then_written_checked"] += 1
            got = [(q.idxfromfile, q.alpha, q.temp_max) for q in net4.reaction_list]
            want = [(i, float(f"{q.alpha:10.3e}"), float(f"{q.temp_max:9.2f}")) for i, q in enumerate(net3.reaction_list)]
            if got != want:
                k = next(i for i, (a, b) in enumerate(zip(got, want)) if a != b) if len(got) == len(want) else -1
                viol.append(violation("edits_lost_on_write", f"{case['src']}: after reindex()/alpha/temp_max edits the written file reads back "
                                      f"{got[k] if k >= 0 else len(got)} instead of {want[k] if k >= 0 else len(want)} (reaction {k})"))
    except Exception as e:
        w = {}
        if case["src"] == "leeds" and "starts with something unrecognizable" in str(e) and str(e).startswith("G") and \
                any(n.startswith("G") for r in case["reactions"] for n in r["reactants"] + r["products"]):
            w["mechanism"] = "C18/leeds-ice-prefix-G-written-verbatim"
        if untyped and case["src"] == "leeds" and isinstance(e, TypeError) and all(case["reactions"][i].get("rtype") in range(15, 20) for i in untyped):
            w["mechanism"] = "C18/leeds-types-15-19-have-no-type-code"
        viol.append(violation("round_trip_raised", f"{case['src']}: {type(e).__name__}: {e} (reactions without type code: {untyped[:5]})",
                              trace=traceback.format_exc()[-800:], **w))
    # ---------------- (B) export + re-render
    if case.get("export"):
        refused = False
        try:
            Species.reset()
            net = build(case, work)
            direct = work / "direct"
            net.to_code(method="dense", path=str(direct))
            net.export("exported", solver="cvode", method="dense", device="cpu", prefix=str(work), overwrite=True)
            exp_dir = work / "exported"
            # exporting again into the same project (overwrite=True) must leave the same network file, not a longer one
            nf = sorted(exp_dir.glob("*.naunet"))
            before = {f.name: f.read_bytes() for f in nf}
            net.export("exported", solver="cvode", method="dense", device="cpu", prefix=str(work), overwrite=True)
            obs["second_exports_checked"] += 1
            after = {f.name: f.read_bytes() for f in sorted(exp_dir.glob("*.naunet"))}
            # ... and an export after an edit replaces the project's network file with the edited network
            if net.reaction_list and nf:
                net.reaction_list[0].alpha = 4.321e-7
                net.export("exported", solver="cvode", method="dense", device="cpu", prefix=str(work), overwrite=True)
                obs["exports_after_edit_checked"] += 1
                first = next((ln for ln in nf[0].read_text().splitlines() if ln.strip()), "")
                try:
                    a_written = float(first.split(",")[9])
                except Exception:
                    a_written = None
                if a_written != 4.321e-7:
                    viol.append(violation("export_after_edit_stale", f"{case['src']}: after editing alpha of the first reaction to 4.321e-07 and exporting again "
                                          f"(overwrite=True) the project's network file still starts with `{first[:120]}`"))
                net.reaction_list[0].alpha = float(orig[0][7])
                net.export("exported", solver="cvode", method="dense", device="cpu", prefix=str(work), overwrite=True)
            if after != before:
                viol.append(violation("second_export_differs", f"{case['src']}: exporting twice into one project changes its network file(s): "
                                      f"{[(k, len(before.get(k, b'').splitlines()), len(v.splitlines())) for k, v in after.items() if before.get(k) != v][:3]}"))
        except Exception as e:
            refused = True
            obs["export_or_rerender_refused"] += 1
            sample["refused"] = f"export: {type(e).__name__}: {str(e)[:100]}"
            if not untyped and not isinstance(e, (NotImplementedError,)):
                w = {}
                if case["src"] == "leeds" and "starts with something unrecognizable" in str(e) and str(e).startswith("G"):
                    w["mechanism"] = "C18/leeds-ice-prefix-G-written-verbatim"
                viol.append(violation("export_raised", f"{case['src']}: export raised {type(e).__name__}: {e}", trace=traceback.format_exc()[-800:], **w))
        if not refused:
            try:
                Species.reset()
                rc, out, err = clihelp.run_command("render", "--force", exp_dir)
                refused = rc != 0
            except Exception as e:
                # re-rendering an exported project may be *refused with an error* (e.g. "Unknown reaction type 302"): allowed by the property
                refused = True
                obs["rerender_refused_with_error"] += 1
                sample["refused"] = f"re-render: {type(e).__name__}: {str(e)[:100]}"
                if case["src"] == "leeds" and "starts with something unrecognizable" in str(e) and str(e).startswith("G"):
                    viol.append(violation("export_raised", f"{case['src']}: re-render raised {type(e).__name__}: {e}", mechanism="C18/leeds-ice-prefix-G-written-verbatim"))
        if not refused:
            try:
                b0 = lab.build_cvode(direct, work / "b0", "dense", ctx.cache, core_only=True)
                b1 = lab.build_cvode(exp_dir, work / "b1", "dense", ctx.cache, core_only=True)
            except lab.BuildError as e:
                viol.append(violation("emitted_code_does_not_compile", f"{e.unit}: {'; '.join(e.diagnostics()[:2])}"))
                b0 = b1 = None
            if b0 and b1:
                obs["exports_rerendered"] += 1
                mac = lab.parse_macros(direct)
                fields = set(b0["fields"]) & set(b1["fields"])
                cmds0, cmds1 = [], []
                for pt in case["points"][:3]:
                    for cm, flds in ((cmds0, b0["fields"]), (cmds1, b1["fields"])):
                        for k, v in pt.items():
                            if k in flds:
                                cm.append(f"set {k} {lab.fmt(v)}")
                        if "zeta" in flds and "zeta" not in pt:
                            cm.append(f"set zeta {lab.fmt(pt.get('zeta_cr', 1.3e-17))}")
                        cm += ["y " + " ".join("1.0" for _ in range(max(1, mac["NSPECIES"]))), "rates"]
                r0 = lab.run_driver(b0["exe"], cmds0, work / "b0")
                r1 = lab.run_driver(b1["exe"], cmds1, work / "b1")
                k0s, k1s = r0.by_ev("rates"), r1.by_ev("rates")
                seen = set()
                for pi, (e0, e1) in enumerate(zip(k0s, k1s)):
                    pt = case["points"][pi]
                    for ri, r in enumerate(case["reactions"]):
                        obs["rates_compared_after_export"] += 1
                        a, b = e0["k"][ri], e1["k"][ri]
                        inside = (r["tmin"] <= 0 or pt["Tgas"] >= r["tmin"]) and (r["tmax"] <= 0 or pt["Tgas"] < r["tmax"])
                        # "the same coefficients" up to the printed precision of the exchange format: the source format's own law
                        # evaluated with the coefficients as printed (10.3e)
                        same = close(b, a, None, rel=1e-9)
                        if not same:
                            try:
                                rq = dict(r, alpha=float(f"{r['alpha']:10.3e}"), beta=float(f"{r['beta']:10.3e}"), gamma=float(f"{r['gamma']:10.3e}"))
                                fmt_law, _ = ratelaws.law(case["format"], rq, pt)
                                if not inside:
                                    fmt_law = 0.0
                                same = close(b, fmt_law, None, rel=1e-7)
                            except Exception:
                                same = close(b, a, None, rel=2e-3)
                        if not same and ri not in seen:
                            seen.add(ri)
                            w = {}
                            # explanation model: the re-rendered value is the *native* law of the written type code applied to the written coefficients
                            tcode = orig[ri][4]
                            try:
                                rr = {"alpha": float(f"{r['alpha']:10.3e}"), "beta": float(f"{r['beta']:10.3e}"), "gamma": float(f"{r['gamma']:10.3e}"), "type": tcode}
                                nat, _ = ratelaws.law("naunet", rr, dict(pt, zeta=pt.get("zeta", pt.get("zeta_cr", 1.3e-17))))
                                if close(b, nat, None, rel=1e-6) and case["src"] in ("umist", "leeds", "uclchem") and tcode in (101, 102, 120, 130, 301, 302):
                                    w["mechanism"] = "C18/export-reinterprets-type-code-with-native-law"
                            except Exception:
                                pass
                            viol.append(violation("rate_changed_by_export", f"{case['src']} reaction {ri} (type {tcode}, {case['format'] if case['src'] != 'api' else 'api'} "
                                                  f"code {r.get('code') or r.get('rtype') or r.get('marker') or r.get('formula') or r.get('type')}): direct k={a!r}, "
                                                  f"exported+re-rendered k={b!r}", type=tcode, **w))
    nontrivial = any(o[4] != 100 for o in orig)
    return {"status": "violated" if viol else "held", "violations": viol[:12], "obs": dict(obs), "nontrivial": nontrivial, "sample": sample}
