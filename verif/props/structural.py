"""Shared harness of C01-C04 (and C13/C16 re-use parts): build a real naunet Network from an
abstract network, render it with the real generator for every back-end, compile the emitted
sources in the cxx lab and collect observations of the *executed* Fex/Jac/EvalRates/helpers.

The reference models below (mass action, analytic derivative, conservation sums) are computed
from the abstract network only; the binding species -> slot is read from the compiled IDX_*
macros.
"""
from __future__ import annotations

import math
import traceback
from pathlib import Path

from ..common import close, violation
from ..cxx import lab
from ..gen import chem, encode

# cooling processes: reactant lists as in the cooling-function literature (Cen 1992 / Grackle)
COOLING = {
    "CIC_HI": ["H", "e-"], "CIC_HeI": ["He", "e-"], "CIC_HeII": ["He+", "e-"], "CIC_He_2S": ["He+", "e-", "e-"],
    "RC_HII": ["H+", "e-"], "RC_HeI": ["He+", "e-"], "RC_HeII": ["He+", "e-"], "RC_HeIII": ["He++", "e-"],
    "CEC_HI": ["H", "e-"], "CEC_HeI": ["He+", "e-"], "CEC_HeII": ["He+", "e-"],
}
KERG = 1.380658e-16

BACKENDS = {
    "dense": dict(solver="cvode", method="dense", device="cpu"),
    "sparse": dict(solver="cvode", method="sparse", device="cpu"),
    "cusparse": dict(solver="cvode", method="cusparse", device="gpu"),
    "odeint": dict(solver="odeint", method="rosenbrock4", device="cpu"),
}


class Refused(Exception):
    pass


# ---------------------------------------------------------------------------------- build

def build_network(case: dict, workdir: Path):
    """Create the real naunet Network for an abstract case (API entry or file entry)."""
    from naunet.network import Network
    from naunet.reactions.reaction import Reaction
    from naunet.reactiontype import ReactionType as RT
    from naunet.species import Species

    Species.reset()
    if case.get("bundled"):
        # a bundled example, configured the way its example module (and `naunet example`) configures it
        import importlib
        from ..common import REPO
        mod = importlib.import_module(f"naunet.examples.{case['bundled']}")
        # same order of operations as the render command
        from naunet.chemistrydata import update_binding_energy, update_photon_yield
        skw = {"grain_symbol": mod.grain_symbol, "surface_prefix": mod.surface_prefix, "bulk_prefix": mod.bulk_prefix}
        Species._replacement = dict(mod.element_replacement)
        Species.set_known_elements(list(mod.elements))
        Species.set_known_pseudoelements(list(mod.pseudo_elements))
        update_binding_energy({Species(k, **skw).name: v for k, v in mod.binding_energy.items()})
        update_photon_yield({Species(k, **skw).name: v for k, v in mod.photon_yield.items()})
        return Network(filelist=str(REPO / "naunet" / "examples" / case["bundled"] / mod.files), fileformats=mod.formats, elements=list(mod.elements),
                       pseudo_elements=list(mod.pseudo_elements), allowed_species=list(mod.allowed_species), required_species=list(mod.extra_species),
                       species_kwargs=skw, heating=list(mod.heating), cooling=list(mod.cooling), shielding=dict(mod.shielding), grain_model=mod.grain_model,
                       rate_modifier={int(k): v for k, v in mod.rate_modifier.items()}, ode_modifier=dict(mod.ode_modifier))
    net = case["net"]
    install_spelling(case)
    provide_binding_energies(net)
    reacs = net["reactions"]
    alphas = case["alphas"]
    kw = dict(required_species=list(net.get("required") or []) or None)
    kw.update(spelling_kwargs(case))
    if case.get("cooling"):
        kw["cooling"] = list(case["cooling"])
    if case.get("ode_modifier"):
        kw["ode_modifier"] = {k: {"factors": [f[0] for f in v["factors"]], "reactants": v["reactants"]}
                              for k, v in case["ode_modifier"].items()}
    if case.get("rate_modifier"):
        kw["rate_modifier"] = {int(k): v[0] for k, v in case["rate_modifier"].items()}
    entry = case.get("entry", "api")
    if entry == "api":
        rl = []
        for r, a in zip(reacs, alphas):
            res = list(r["reactants"]) + ([r["pseudo"]] if r.get("pseudo") else [])
            rl.append(Reaction(res, list(r["products"]), alpha=a, reaction_type=RT.GAS_TWOBODY,
                               idxfromfile=r["idx"] if case.get("indexed", True) else -1))
        return Network(rl, **kw)
    # file entry: consecutive chunks of the reaction list go to files of different formats
    files, fmts = [], []
    for ci, chunk in enumerate(case["chunks"]):
        fmt = chunk["format"]
        lines = []
        for ri in chunk["reactions"]:
            r = dict(reacs[ri])
            r.update(alpha=alphas[ri], beta=0.0, gamma=0.0, tmin=chunk.get("tmin", -9999), tmax=chunk.get("tmax", 9999))
            if fmt == "kida":
                r["formula"] = 3
            elif fmt == "umist":
                r["code"] = "NN"
            elif fmt == "naunet":
                r["type"] = 100
            lines.append(encode.LINE[fmt](r))
        p = workdir / f"net{ci}.{fmt}"
        p.write_text("\n".join(lines) + "\n")
        files.append(str(p))
        fmts.append(fmt)
    return Network(filelist=files, fileformats=fmts, **kw)


def install_spelling(case):
    """Upper-case element spelling with a replacement table, installed the way `naunet render` installs it."""
    from naunet.species import Species
    if case.get("spelling") == "upper_replace":
        Species._replacement = dict(chem.UPPER_REPLACEMENT)
        Species.set_known_elements(list(chem.UPPER_ELEMENTS))
        Species.set_known_pseudoelements(list(chem.UPPER_PSEUDO))
    elif case.get("spelling") == "isotopes":
        Species.set_known_elements(list(chem.DEFAULT_ELEMENTS) + list(chem.ISOTOPE_ELEMENTS))
        Species.set_known_pseudoelements(["CR", "CRP", "XRAY", "Photon", "PHOTON", "CRPHOT", "o", "p", "m"])


def spelling_kwargs(case) -> dict:
    if case.get("spelling") == "upper_replace":
        return dict(elements=list(chem.UPPER_ELEMENTS), pseudo_elements=list(chem.UPPER_PSEUDO))
    if case.get("spelling") == "isotopes":
        return dict(elements=list(chem.DEFAULT_ELEMENTS) + list(chem.ISOTOPE_ELEMENTS), pseudo_elements=["CR", "CRP", "XRAY", "Photon", "PHOTON", "CRPHOT", "o", "p", "m"])
    return {}


def provide_binding_energies(net):
    """Ice species need a binding energy at render time (eb_<alias> constants): give every generated ice
    species one through the documented user table, under both surface-prefix spellings."""
    from naunet import chemistrydata
    eb = {}
    for sp in net["species"]:
        if sp["surface"]:
            core = sp["name"][1:]
            cores = [core]
            if sp["name"].isupper() and sp["alias"][1:-1].upper() == core and sp["alias"][1:-1] != core:
                cores.append(sp["alias"][1:-1])   # upper-case spelling: with a replacement table the energy is looked up under the renamed species
            v = 800.0 + 37.0 * (sum(ord(c) for c in core.upper()) % 50)
            for c_ in cores:
                eb["#" + c_] = v
                eb["G" + c_] = v
    if eb:
        chemistrydata.update_binding_energy(eb)


def render(net, backend: str, path: Path, jac_pattern=False):
    """The real generator.  `to_code` is the public entry; the pattern file needs TemplateLoader."""
    from naunet.templateloader import TemplateLoader
    b = BACKENDS[backend]
    path.mkdir(parents=True, exist_ok=True)
    if jac_pattern:
        tl = TemplateLoader(b["solver"], b["method"], b["device"])
        tl.render("naunet", net, path=path, save=True, jac_pattern=True)
    else:
        net.to_code(solver=b["solver"], method=b["method"], device=b["device"], path=str(path))
    return path


# ---------------------------------------------------------------------------------- slots

def slot_map(species: list[dict], idx: dict, nspecies: int):
    """species name -> slot from the *compiled* IDX_ macros; returns (slots, problems)."""
    problems, slots = [], {}
    electron_slots = {idx[k] for k in ("IDX_eM", "IDX_EM") if k in idx}
    if len(electron_slots) > 1:
        problems.append(("electron_two_slots", sorted(electron_slots)))
    for sp in species:
        if sp["electron"]:
            cand = [idx[k] for k in ("IDX_eM", "IDX_EM") if k in idx]
        else:
            cand = [idx["IDX_" + sp["alias"]]] if ("IDX_" + sp["alias"]) in idx else []
        if not cand:
            problems.append(("species_without_slot", sp["name"]))
            continue
        slots[sp["name"]] = cand[0]
    vals = [v for k, v in idx.items() if k.startswith("IDX_") and not k.startswith("IDX_ELEM_") and k != "IDX_TGAS"]
    if sorted(vals) != list(range(nspecies)):
        problems.append(("slots_not_bijective", sorted(vals)[:50]))
    classes = {}
    for n, s in slots.items():
        classes.setdefault(s, []).append(n)
    for s, names in classes.items():
        if len(names) > 1 and not all(n.upper() in ("E", "E-") for n in names):
            problems.append(("two_species_one_slot", names))
    return slots, problems


# ---------------------------------------------------------------------------------- references

def ref_fex(case, slots, k, y, kc=None, npar=None, gamma=None, n_eq=None, modifier_values=True):
    """Mass-action right-hand side from the abstract network. Returns (ydot, scale)."""
    net = case["net"]
    n = n_eq
    ydot = [0.0] * n
    scale = [0.0] * n
    for ri, r in enumerate(net["reactions"]):
        mono = k[ri]
        for s in r["reactants"]:
            mono *= y[slots[s]]
        for s in r["reactants"]:
            ydot[slots[s]] -= mono
            scale[slots[s]] += abs(mono)
        for s in r["products"]:
            ydot[slots[s]] += mono
            scale[slots[s]] += abs(mono)
    for sname, mod in (case.get("ode_modifier") or {}).items():
        for (fstr, fval), deps in zip(mod["factors"], mod["reactants"]):
            t = fval
            for d in deps:
                t *= y[slots[d]]
            ydot[slots[sname]] += t
            scale[slots[sname]] += abs(t)
    if case.get("cooling"):
        tot, sc = 0.0, 0.0
        for ci, cname in enumerate(case["cooling"]):
            t = kc[ci]
            for s in COOLING[cname]:
                t *= y[slots[s]]
            tot -= t
            sc += abs(t)
        f = (gamma - 1.0) / KERG / npar
        ydot[n - 1] = f * tot
        scale[n - 1] = abs(f) * sc
    return ydot, scale


def ref_jac(case, slots, k, y, kc=None, npar=None, gamma=None, n_eq=None):
    """Analytic d ydot_i / d y_j with k, kc, npar, gamma frozen. Returns (J, scale) as dicts (i,j)->v."""
    net = case["net"]
    n = n_eq
    J, S = {}, {}

    def add(i, j, v):
        J[(i, j)] = J.get((i, j), 0.0) + v
        S[(i, j)] = S.get((i, j), 0.0) + abs(v)

    def dmono(coef, names):
        # derivative of coef*prod(y[names]) w.r.t. each slot
        out = {}
        sl = [slots[s] for s in names]
        for pos, j in enumerate(sl):
            t = coef
            for q, jj in enumerate(sl):
                if q != pos:
                    t *= y[jj]
            out[j] = out.get(j, 0.0) + t
        return out

    for ri, r in enumerate(net["reactions"]):
        d = dmono(k[ri], r["reactants"])
        for j, v in d.items():
            for s in r["reactants"]:
                add(slots[s], j, -v)
            for s in r["products"]:
                add(slots[s], j, +v)
    for sname, mod in (case.get("ode_modifier") or {}).items():
        for (fstr, fval), deps in zip(mod["factors"], mod["reactants"]):
            for j, v in dmono(fval, deps).items():
                add(slots[sname], j, v)
    if case.get("cooling"):
        f = (gamma - 1.0) / KERG / npar
        for ci, cname in enumerate(case["cooling"]):
            for j, v in dmono(kc[ci], COOLING[cname]).items():
                add(n - 1, j, -f * v)
    return J, S


# ---------------------------------------------------------------------------------- observe

def y_vector(case, slots, yvals: dict, n_eq: int):
    y = [0.0] * n_eq
    for name, s in slots.items():
        y[s] = yvals[name]
    if case.get("cooling"):
        y[n_eq - 1] = yvals["__TGAS__"]
    return y


def data_commands(case) -> list[str]:
    d = {"nH": 1.0e2, "Tgas": 50.0, "zeta": 1.0, "Av": 0.0, "omega": 0.5}
    d.update(case.get("data") or {})
    return d


def csr_decode(rowptrs, colvals, data, n):
    """Validate CSR arrays as filled by the generated code; return (entries dict, problems)."""
    probs = []
    nnz = len(data)
    if len(rowptrs) != n + 1:
        probs.append(f"rowptrs length {len(rowptrs)} != {n + 1}")
        return {}, probs
    if rowptrs[0] != 0:
        probs.append(f"rowptrs[0]={rowptrs[0]}")
    if rowptrs[-1] != nnz:
        probs.append(f"rowptrs[N]={rowptrs[-1]} != NNZ={nnz}")
    for a, b in zip(rowptrs, rowptrs[1:]):
        if b < a:
            probs.append(f"rowptrs decrease {a}->{b}")
    ent = {}
    for i in range(n):
        lo, hi = rowptrs[i], rowptrs[i + 1]
        if lo < 0 or hi > nnz or lo > hi:
            probs.append(f"row {i} range [{lo},{hi}) outside [0,{nnz}]")
            continue
        prev = -1
        for p in range(lo, hi):
            c = colvals[p]
            if c < 0 or c >= n:
                probs.append(f"col {c} out of range in row {i}")
                continue
            if c <= prev:
                probs.append(f"columns not strictly increasing in row {i}: {prev} then {c}")
            prev = c
            ent[(i, c)] = data[p]
    if any(v == -777 for v in list(rowptrs) + list(colvals)):
        probs.append("unassigned rowptr/colval sentinel left")
    return ent, probs


def run_backends(case: dict, ctx, backends, want) -> dict:
    """Render + build + run. Returns {"backend": {...observations...}, "errors": [...]}.

    want: set of {"pass", "inject", "frozen_jac", "elem", "pattern"}
    """
    out = {"errors": [], "refused": None}
    work = ctx.fresh_dir("s")
    try:
        net = build_network(case, work)
    except Exception as e:
        out["errors"].append(("build_network", f"{type(e).__name__}: {e}", traceback.format_exc()[-1500:]))
        return out
    out["n_reactions_py"] = len(net.reaction_list)
    data = data_commands(case)
    for be in backends:
        o = out[be] = {"sanitizer": [], "problems": []}
        proj = work / be
        try:
            render(net, be, proj, jac_pattern=("pattern" in want))
        except Exception as e:
            out["errors"].append((f"render:{be}", f"{type(e).__name__}: {e}", traceback.format_exc()[-1500:]))
            continue
        try:
            if be in ("dense", "sparse"):
                b = lab.build_cvode(proj, work / f"b_{be}", be, ctx.cache, core_only=True)
            elif be == "odeint":
                b = lab.build_odeint(proj, work / f"b_{be}", ctx.cache, core_only=True)
            else:
                b = lab.build_cusparse(proj, work / f"b_{be}", ctx.cache, core_only=True)
        except lab.BuildError as e:
            out["errors"].append((f"compile:{be}:{e.unit}", "; ".join(e.diagnostics()[:5]) or e.stderr[-800:], e.stderr[-1500:]))
            continue
        o["macros"] = lab.parse_macros(proj)
        if (proj / "jac_pattern.dat").exists():
            o["pattern"] = [[int(t) for t in line.split()] for line in (proj / "jac_pattern.dat").read_text().splitlines()]
        # first run: info + idx (slot binding is needed to lay out y)
        r0 = lab.run_driver(b["exe"], ["info", "idx"], work / f"b_{be}")
        if r0.crashed() or not r0.by_ev("info"):
            o["sanitizer"] += r0.sanitizer_reports
            out["errors"].append((f"run:{be}", "driver failed on info/idx", r0.stderr[-1500:]))
            continue
        info, idx = r0.by_ev("info")[0], r0.by_ev("idx")[0]
        idx.pop("ev")
        o["info"], o["idx"] = info, idx
        n_eq = info["NEQUATIONS"]
        slots, probs = slot_map(case["net"]["species"], idx, info["NSPECIES"])
        o["slots"], o["problems"] = slots, probs
        if any(p[0] == "species_without_slot" for p in probs):
            continue
        sys_prefix = "-1 " if be == "cusparse" else ""
        cmds = [f"set {sys_prefix}{k} {lab.fmt(v)}" for k, v in data.items()]
        if case.get("deferred_factors") and not case.get("_factors_resolved"):
            err = resolve_deferred_factors(case, b, work / f"b_{be}", cmds, idx, be)
            if err:
                out["errors"].append((f"run:{be}", err, ""))
                continue
        runs = []
        nsys = case.get("nsystem", 3) if be == "cusparse" else 1
        if be == "cusparse":
            cmds = [f"nsys {nsys} {case.get('block', 2)}"] + cmds
        for pi, yvals in enumerate(case["ys"]):
            y = y_vector(case, slots, yvals, n_eq)
            if be == "cusparse":
                # system s gets y scaled by (1 + s/8): distinct systems exercise yistart/jistart offsets
                ys = [[v * (1.0 + s / 8.0) for v in y] for s in range(nsys)]
                cmds.append("y " + " ".join(lab.fmt(v) for row in ys for v in row))
            else:
                ys = [y]
                cmds.append("y " + " ".join(lab.fmt(v) for v in y))
            tag = {"y": ys, "steps": []}
            if "pass" in want:
                cmds.append("mode pass") if be != "odeint" else None
                if be == "odeint":
                    cmds += ["rates", "fex", "jac"]
                    tag["steps"] += ["rates", "fex", "jac"]
                else:
                    cmds += ["fex", "jac"]
                    tag["steps"] += ["fex", "jac"]
            if "inject" in want and be != "odeint":
                for kv in case.get("ks", [])[: (2 if pi else len(case.get("ks", [])))]:
                    cmds += ["mode inject", "use_k " + " ".join(lab.fmt(v) for v in kv)]
                    if case.get("cooling"):
                        cmds += ["use_kc " + " ".join(lab.fmt(v) for v in case["kcs"]),
                                 f"use_scalars {lab.fmt(case['npar'])} 1.0 {lab.fmt(case['gamma'])}"]
                    cmds += ["fex", "jac"]
                    tag["steps"] += [("inject_fex", kv), ("inject_jac", kv)]
            if "frozen_jac" in want and be in ("dense", "sparse"):
                cmds += ["mode pass", "freeze", "numjac", "jac", "mode pass"]
                tag["steps"] += ["freeze", "numjac", "frozen_jac"]
            if "numjac_unfrozen" in want and be == "odeint":
                cmds += ["numjac"]
                tag["steps"] += ["numjac"]
            if "elem" in want and be in ("dense", "sparse", "odeint"):
                cmds += ["elem"]
                tag["steps"] += ["elem"]
            runs.append(tag)
        rr = lab.run_driver(b["exe"], [c for c in cmds if c], work / f"b_{be}")
        o["sanitizer"] += rr.sanitizer_reports
        o["crashed"] = rr.crashed()
        o["stderr_tail"] = rr.stderr[-1200:] if rr.crashed() or rr.sanitizer_reports else ""
        # split the event stream back per point
        evs = [e for e in rr.events if e["ev"] in ("rates", "fex", "jac", "freeze", "numjac", "elem")]
        pos = 0
        for tag in runs:
            got = []
            for st in tag["steps"]:
                if pos < len(evs):
                    got.append((st, evs[pos]))
                    pos += 1
            tag["events"] = got
        o["runs"] = runs
        o["n_eq"] = n_eq
        o["nsys"] = nsys
    return out


def resolve_deferred_factors(case, b, cwd, setcmds, idx, be):
    """ODE-modifier factors of the bundled cloud example are derived quantities of the UCLCHEM reaction class
    (H2formation, H2dissociation).  Their values at the case's data point come from the published formulae, with the two
    physics helpers (grain scattering, H2 self-shielding - C05's subject) evaluated by the compiled code itself."""
    import math
    if be not in ("dense", "sparse"):
        return "deferred ODE-modifier factors need a CVODE back-end first in the list"
    d = data_commands(case)
    h2col = 0.5 * 1.59e21 * d["Av"]
    if "IDX_H2I" not in idx:
        return "no IDX_H2I macro"
    r = lab.run_driver(b["exe"], setcmds + [f"gscat {lab.fmt(d['Av'])} 1000.0",
                                             f"shield {idx['IDX_H2I']} {lab.fmt(h2col)} {lab.fmt(h2col)} {lab.fmt(d['Tgas'])} 1"], cwd)
    g, sh = r.by_ev("gscat"), r.by_ev("shield")
    if r.crashed() or not g or not sh:
        return "driver failed on gscat/shield: " + r.stderr[-300:]
    names = {"H2formation": 1.0e-17 * math.sqrt(d["Tgas"]) * d["nH"],
             "H2dissociation": 5.1e-11 * d.get("G0", 1.0) * g[0]["value"] * sh[0]["value"]}
    for mod in case["ode_modifier"].values():
        for f in mod["factors"]:
            if f[1] is None:
                f[1] = float(eval(f[0], {"__builtins__": {}}, names))
    case["_factors_resolved"] = names
    return None


def fmt_err(errs):
    return "; ".join(f"{w}: {m}" for w, m, _ in errs)[:600]


def preamble(out, backends, viol, obs, sanitizer_is_violation=True):
    """Turn pipeline failures into violations; return the list of back-ends with usable runs."""
    usable = []
    for w, m, tb in out["errors"]:
        kind = "emitted_code_does_not_compile" if w.startswith("compile") else "generator_or_run_failure"
        viol.append(violation(kind, f"{w}: {m}", trace=tb))
    for be in backends:
        o = out.get(be)
        if not o:
            continue
        for p in o.get("problems") or []:
            viol.append(violation("slot_binding", f"{be}: {p[0]} {p[1]}", backend=be))
        if "runs" not in o:
            continue
        if o["sanitizer"]:
            obs["sanitizer_reports"] += len(o["sanitizer"])
            if sanitizer_is_violation:
                viol.append(violation("sanitizer_report", f"{be}: {o['sanitizer'][0][:300]}", backend=be, stderr=o.get("stderr_tail")))
        if o.get("crashed") and not o["sanitizer"]:
            viol.append(violation("driver_crash", f"{be}: driver exited abnormally", stderr=o.get("stderr_tail")))
            continue
        obs[f"backend_{be}"] += 1
        usable.append(be)
    return usable


def describe(case) -> dict:
    return {"reactions": [f"{' + '.join(r['reactants'] + ([r['pseudo']] if r.get('pseudo') else []))} -> {' + '.join(r['products'])}"
                          for r in case["net"]["reactions"][:6]],
            "n_reactions": len(case["net"]["reactions"]), "n_species": len(case["net"]["species"]),
            "entry": case.get("entry"), "cooling": case.get("cooling"),
            "ode_modifier": {k: {"factors": [f[0] for f in v["factors"]], "reactants": v["reactants"]}
                             for k, v in (case.get("ode_modifier") or {}).items()} or None}
