"""C17 - code generation is a deterministic function of the network description.

Deciding step: the same network description is rendered by the real generator (a) in fresh
interpreter processes under several PYTHONHASHSEED values, (b) twice in one process, and (c) in
processes that handle *foreign* networks (other element lists, prefixes, replacement tables,
binding energies, KROME directives, a rendering of another project) before the build, between
build and render, or between two renderings; sha256 digests of every emitted file (date,
version and project name masked) are compared with the fresh-process reference.  Each schedule
contains exactly one foreign operation, so a difference is attributed to that operation.
"""
from __future__ import annotations

import json
import os
import random
import subprocess
from collections import Counter
from pathlib import Path

from .. import common
from ..common import violation
from ..gen import chem, encode

ID = "C17"
LEVEL = "exploration"
BATCH = 1
TIMEOUT = 900
HASHSEED = None
REQUIRED_OBS = ["renderings_compared", "hash_seeds_compared", "repeat_renderings_compared", "schedules_run", "foreign_before_build", "foreign_between_build_and_render",
                "foreign_between_renderings", "incremental_builds_compared", "desc_explicit_lists", "desc_default_lists", "desc_ode_modifier", "desc_krome", "desc_ice"]
RULE = ("network descriptions {KIDA/UMIST gas network with default lists; the same with explicit element lists; with rate and ODE modifiers; "
        "ice network with user binding energies; KROME network with @var/@common; upper-case explicit lists} x PYTHONHASHSEED {0, 1, 2, "
        "random} x render twice x schedules with one foreign operation {network with upper-case lists, Leeds network (prefix G), replacement "
        "table as installed by `naunet render`, update_binding_energy, KROME file with directives, rendering of another network, bare "
        "element-list switch} placed before the build, between build and render, or between two renderings; cvode dense and odeint; "
        "non-trivial = schedule with a foreign operation; distinct by (description, schedule)")
ASSUMPTIONS = ["digest comparison masks only the naunet version, the project name and the project date in CMakeLists.txt",
               "a refusal (exception) in an interleaved run where the fresh run succeeded is a violation too"]

UPPER_EL = ["E", "H", "D", "HE", "C", "N", "O", "MG", "SI", "S", "CL"]
UPPER_PS = ["CR", "CRP", "PHOTON", "CRPHOT"]
UPPER_RP = {"E": "e", "HE": "He", "MG": "Mg", "SI": "Si", "CL": "Cl"}

FOREIGN = ["net_upper", "net_default", "net_prefixG", "replacement", "binding", "krome", "render_other", "species_only"]
SLOTS = ["before_build", "between_build_and_render", "between_renderings"]

MECH = {
    ("net_upper", "before_build"): "C17/default-lists-inherited-from-previous-network",
    ("replacement", "before_build"): "C17/default-lists-inherited-from-previous-network",
    ("species_only", "before_build"): "C17/default-lists-inherited-from-previous-network",
    ("binding", "before_build"): "C17/user-binding-energy-table-is-process-global",
    ("binding", "between_build_and_render"): "C17/user-binding-energy-table-is-process-global",
    ("binding", "between_renderings"): "C17/user-binding-energy-table-is-process-global",
    ("replacement", "between_build_and_render"): "C17/replacement-table-never-reset",
    ("replacement", "between_renderings"): "C17/replacement-table-never-reset",
}


def gas_net(rng, names=None):
    pool = chem.species_pool(rng, 9, ions=True, labels=False)
    names = [s["name"] for s in pool if len(s["name"]) <= 9]
    reacs = []
    for i in range(rng.randint(4, 10)):
        reacs.append({"reactants": [rng.choice(names) for _ in range(rng.choice([1, 2]))], "products": [rng.choice(names) for _ in range(rng.choice([1, 2]))],
                      "idx": i + 1, "alpha": round(rng.uniform(0.1, 9), 3), "beta": round(rng.uniform(-1, 1), 2), "gamma": round(rng.uniform(0, 100), 1),
                      "tmin": -9999.0, "tmax": 9999.0, "formula": 3, "code": "NN", "pseudo": None})
    return names, reacs


def make_case(rng, kind):
    names, reacs = gas_net(rng)
    d = {"kind": kind}
    if kind in ("default_lists", "explicit_lists", "ode_modifier"):
        fmt = rng.choice(["kida", "umist"])
        reacs = [r for r in reacs if encode.fits(fmt, r)]
        # closing reactions: among species the earlier lines already introduced (they change who is connected to whom, not the species set)
        used = sorted({n for r in reacs for n in r["reactants"] + r["products"]})
        ncl = 0
        for j in range(rng.randint(1, 3)):
            if len(used) >= 2:
                a, b2 = rng.sample(used, 2)
                c = {"reactants": [a, b2], "products": [rng.choice(used)], "idx": len(reacs) + 1, "alpha": round(rng.uniform(0.1, 9), 3), "beta": 0.0, "gamma": 0.0,
                     "tmin": -9999.0, "tmax": 9999.0, "formula": 3, "code": "NN", "pseudo": None}
                if encode.fits(fmt, c):
                    reacs.append(c)
                    ncl += 1
        if kind == "default_lists" or rng.random() < 0.5:
            # an excited atom next to the ground-state atom: two atomic species of one element
            for res, prs in ((["H*"], ["H"]), (["H", "H"], ["H*", "H"])):
                c = {"reactants": res, "products": prs, "idx": len(reacs) + 1, "alpha": 1.5, "beta": 0.0, "gamma": 0.0, "tmin": -9999.0, "tmax": 9999.0, "formula": 3, "code": "NN", "pseudo": None}
                if encode.fits(fmt, c):
                    reacs.insert(len(reacs) - ncl, c)          # before the closing reactions, which stay last
            for j_, r_ in enumerate(reacs):
                r_["idx"] = j_ + 1
        d["closing_lines"] = ncl
        d["lines"] = {f"net.{fmt}": [encode.LINE[fmt](r) for r in reacs]}
        d["formats"] = [fmt]
        if kind != "default_lists":
            d["elements"] = list(chem.DEFAULT_ELEMENTS)
            d["pseudo_elements"] = ["CR", "CRP", "XRAY", "Photon", "PHOTON", "CRPHOT", "X", "M", "p", "o", "m", "c-", "l-", "\\*", "g"]
        if kind == "ode_modifier":
            used = sorted({n for r in reacs for n in r["reactants"] + r["products"]})
            d["ode_modifier"] = {rng.choice(used): {"factors": ["-1.5e-3"], "reactants": [[rng.choice(used), rng.choice(used)]]}}
            d["rate_modifier"] = {str(reacs[0]["idx"]): "2.0*zeta"}
    elif kind == "ice":
        def L(i, re_, pr, t, ps=None):
            return encode.leeds_line({"reactants": re_, "products": pr, "idx": i, "alpha": 1.0, "beta": 0.0, "gamma": 0.0, "tmin": 0, "tmax": 0, "rtype": t, "pseudo": ps})
        d["lines"] = {"net.leeds": [L(1, ["CO"], ["GCO"], 7), L(2, ["GCO"], ["CO"], 8), L(3, ["H2O"], ["GH2O"], 7), L(4, ["GH2O"], ["H2O"], 10, "PHOTON"),
                                    L(5, ["GCO"], ["CO"], 9, "CRP"),
                                    # grains as species in two charge states: the grain density is derived from their sum, in a fixed order
                                    L(6, ["e-", "GRAIN0"], ["GRAIN-"], 20), L(7, ["C+", "GRAIN-"], ["C", "GRAIN0"], 6), L(8, ["H+", "GRAIN-"], ["H", "GRAIN0"], 6)]}
        d["formats"] = ["leeds"]
        d["grain_model"] = "hh93"
        d["binding"] = {"GH2O": round(rng.uniform(4000, 6000), 1)}     # GCO relies on the RATE12 table
    elif kind == "krome":
        d["lines"] = {"net.krome": ["@common:user_crate,user_Av", "@var:uscl = 1.0e17*user_crate", "@format:idx,R,R,P,P,Tmin,Tmax,rate",
                                    "1,H,H,H2,,NONE,NONE,1.0d-17*sqrt(Tgas)", "2,H2,e-,H,H-,10,1.0d4,2.3d-9*(T32)**(-0.5)*uscl",
                                    "3,C,O,CO,,NONE,.LE.5.5e3,4.69d-19*exp(-1.0*user_Av)*n(idx_H)"]}
        d["formats"] = ["krome"]
    elif kind == "upper_lists":
        d["lines"] = {"net.uclchem": ["H,HE+,NAN,HE,H+,NAN,NAN,1.2e-15,0.25,0.0,10,41000", "MG,H+,NAN,MG+,H,NAN,NAN,1.1e-9,0.0,0.0,10,41000",
                                      "SIO,HE+,NAN,SI+,O,HE,NAN,8.6e-10,-0.5,0.0,10,41000", "H2,CRP,NAN,H,H,NAN,NAN,1.3e-18,0.0,0.0,10,41000",
                                      "HCL,E-,NAN,H,CL,NAN,NAN,3.0e-7,-0.5,0.0,10,41000"]}
        d["formats"] = ["uclchem"]
        d["elements"], d["pseudo_elements"] = list(UPPER_EL), list(UPPER_PS)
    elif kind == "elements_only":
        # explicit element list, no pseudo-element list (UCLCHEM marker tokens are not species)
        d["lines"] = {"net.uclchem": ["H,HE+,NAN,HE,H+,NAN,NAN,1.2e-15,0.25,0.0,10,41000", "MG,H+,NAN,MG+,H,NAN,NAN,1.1e-9,0.0,0.0,10,41000",
                                      "SIO,HE+,NAN,SI+,O,HE,NAN,8.6e-10,-0.5,0.0,10,41000", "H,H,NAN,H2,NAN,NAN,NAN,1.0e-17,0.5,0.0,10,41000",
                                      "HCL,E-,NAN,H,CL,NAN,NAN,3.0e-7,-0.5,0.0,10,41000"]}
        d["formats"] = ["uclchem"]
        d["elements"] = list(UPPER_EL)
    return d


KINDS = ["default_lists", "explicit_lists", "ode_modifier", "ice", "krome", "upper_lists", "elements_only"]


def gen_cases(tier):
    rng = common.rng_for(ID)
    n = 14 if tier == "quick" else 98
    cases = []
    for i in range(n):
        r = random.Random(rng.getrandbits(64))
        d = make_case(r, KINDS[i % len(KINDS)])
        sched = [(k, s) for k in FOREIGN for s in SLOTS]
        if tier == "quick":
            # stratified: every description meets a list-installing foreign network at each of the three positions
            must = [(k, sl) for k in (("net_default",) if d.get("elements") and d["elements"][1:2] != ["E"] and "HE" in d["elements"] else ("net_upper",)) for sl in SLOTS]
            # ... and another network that has been *rendered* (identifiers evaluated under its own lists) before the build and between renderings
            must += [("render_other", "before_build"), ("render_other", "between_renderings")]
            sched = must + r.sample([x for x in sched if x not in must], 7)
        cases.append({"desc": d, "schedules": sched, "backend": "odeint" if i % 4 == 3 else "dense", "hashseeds": ["0", "1", "2", "random"]})
    return cases


def run_plan(plan, work: Path, hashseed="0", tag="p"):
    pf = work / f"{tag}.json"
    pf.write_text(json.dumps(plan))
    env = dict(os.environ, PYTHONHASHSEED=hashseed, TQDM_DISABLE="1")
    try:
        p = subprocess.run([common.PY, "-m", "verif.props.c17_child", str(pf)], capture_output=True, text=True, timeout=300, env=env, cwd=str(common.ROOT),
                           stdin=subprocess.DEVNULL)
    except subprocess.TimeoutExpired:
        return {"error": "timeout", "digests": {}}
    for line in p.stdout.splitlines()[::-1]:
        if line.startswith("{"):
            return json.loads(line)
    return {"error": "child died: " + p.stderr[-400:], "digests": {}, "harness": True}


def run_case(case, ctx):
    obs, viol = Counter(), []
    work = ctx.fresh_dir("h")
    d = dict(case["desc"])
    obs["desc_" + {"upper_lists": "explicit_lists", "elements_only": "explicit_lists"}.get(d["kind"], d["kind"])] += 1
    files = []
    for fn, lines in d["lines"].items():
        (work / fn).write_text("\n".join(lines) + "\n")
        files.append(str(work / fn))
    d["files"] = files
    # foreign material
    (work / "f_upper.ucl").write_text("H,HE+,NAN,HE,H+,NAN,NAN,1.2e-15,0.25,0.0,10,41000\nMG,H+,NAN,MG+,H,NAN,NAN,1.1e-9,0.0,0.0,10,41000\n")
    (work / "f_leeds.leeds").write_text(encode.leeds_line({"reactants": ["CO"], "products": ["GCO"], "idx": 1, "alpha": 1.0, "beta": 0.0, "gamma": 0.0, "tmin": 0, "tmax": 0, "rtype": 1}) + "\n")
    (work / "f_krome.krome").write_text("@common:user_foo\n@var:ufoo = user_foo*2.0\n@format:idx,R,P,P,rate\n1,H2,H,H,1.0d-10*ufoo\n")
    (work / "f_other.kida").write_text(encode.kida_line({"reactants": ["C", "O"], "products": ["CO"], "idx": 1, "alpha": 1e-10, "beta": 0.0, "gamma": 0.0, "tmin": -9999, "tmax": 9999, "formula": 3}) + "\n")

    def foreign(kind):
        st = {"op": "foreign", "kind": kind}
        if kind == "net_upper":
            st.update(file=str(work / "f_upper.ucl"), elements=UPPER_EL, pseudo=UPPER_PS)
        elif kind == "net_default":
            st.update(file=str(work / "f_other.kida"), elements=list(chem.DEFAULT_ELEMENTS), pseudo=["CR", "CRP", "Photon", "PHOTON", "CRPHOT", "o", "p", "m"])
        elif kind == "net_prefixG":
            st.update(file=str(work / "f_leeds.leeds"))
        elif kind == "replacement":
            st.update(replacement=UPPER_RP, elements=UPPER_EL, pseudo=UPPER_PS)
        elif kind == "binding":
            st.update(binding={"#CO": 1499.5, "GCO": 1499.5, "#H2O": 5111.0})
        elif kind == "krome":
            st.update(file=str(work / "f_krome.krome"))
        elif kind == "render_other":
            st.update(file=str(work / "f_other.kida"), out=str(work / "other_out"))
        elif kind == "species_only":
            st.update(elements=UPPER_EL, pseudo=UPPER_PS)
        return st

    b = {"solver": "cvode", "method": "dense"} if case["backend"] == "dense" else {"solver": "odeint", "method": "rosenbrock4"}
    base = [{"op": "build", "slot": "T", "desc": d}, {"op": "configure", "slot": "T", "desc": d}]
    ref = run_plan({"steps": base + [dict(op="render", slot="T", out=str(work / "ref1"), tag="r1", **b), dict(op="render", slot="T", out=str(work / "ref2"), tag="r2", **b)]}, work, "0", "ref")
    if ref.get("error") or "r1" not in ref["digests"]:
        if ref.get("harness"):
            return {"status": "inconclusive", "violations": [], "obs": dict(obs), "lost": "child", "error": ref.get("error")}
        return {"status": "violated", "violations": [violation("fresh_render_failed", f"{d['kind']}: {ref.get('error')}", trace=ref.get("trace"))], "obs": dict(obs)}
    R = ref["digests"]["r1"]
    obs["renderings_compared"] += 1
    obs["repeat_renderings_compared"] += 1
    if ref["digests"]["r2"] != R:
        diff = sorted(k for k in R if ref["digests"]["r2"].get(k) != R[k])
        viol.append(violation("second_rendering_differs", f"{d['kind']}: rendering the same Network twice in one process changes {diff[:4]}"))
    for hs in case["hashseeds"][1:]:
        r = run_plan({"steps": base + [dict(op="render", slot="T", out=str(work / f"hs{hs}"), tag="r1", **b)]}, work, hs, f"hs{hs}")
        obs["hash_seeds_compared"] += 1
        obs["renderings_compared"] += 1
        if r.get("error") or r["digests"].get("r1") != R:
            diff = sorted(k for k in R if (r["digests"].get("r1") or {}).get(k) != R[k])
            viol.append(violation("hash_seed_dependence", f"{d['kind']}: PYTHONHASHSEED={hs}: {r.get('error') or diff[:4]}"))
    for kind, slot in case["schedules"]:
        kind, slot = str(kind), str(slot)
        f = foreign(kind)
        r1 = dict(op="render", slot="T", out=str(work / f"s_{kind}_{slot}_1"), tag="r1", **b)
        r2 = dict(op="render", slot="T", out=str(work / f"s_{kind}_{slot}_2"), tag="r2", **b)
        if slot == "before_build":
            steps = [f] + base + [r1]
        elif slot == "between_build_and_render":
            steps = base + [f, r1]
        else:
            steps = base + [r1, f, r2]
        res = run_plan({"steps": steps}, work, "0", f"s_{kind}_{slot}")
        obs["schedules_run"] += 1
        obs["foreign_" + slot] += 1
        if res.get("harness"):
            continue
        last = "r2" if slot == "between_renderings" else "r1"
        got = res["digests"].get(last)
        obs["renderings_compared"] += 1
        if got != R:
            w = {}
            explicit = bool(d.get("elements"))
            if kind == "binding" and d["kind"] == "ice":
                w["mechanism"] = "C17/user-binding-energy-table-is-process-global"
            elif kind == "replacement" and (explicit or slot != "before_build"):
                w["mechanism"] = "C17/replacement-table-never-reset"
            elif kind in ("net_upper", "net_default", "replacement", "species_only", "net_prefixG") and not explicit:
                # a description without explicit element lists means "the default lists"; naunet keeps whatever lists are installed
                w["mechanism"] = "C17/default-lists-inherited-from-previous-network"
            if res.get("error"):
                detail = f"{d['kind']}: foreign `{kind}` {slot.replace('_', ' ')} -> {res['error'][:160]}"
            else:
                diff = sorted(k for k in R if (got or {}).get(k) != R[k])
                detail = f"{d['kind']}: foreign `{kind}` {slot.replace('_', ' ')} changes {diff[:4]}"
            viol.append(violation("history_dependence", detail, foreign=kind, slot=slot, desc_kind=d["kind"], **w))
    # ---- the same network reached incrementally: part of the file, (render / species list read), the remaining lines added, render
    if d["kind"] != "krome" and len(d["lines"]) == 1:
        (fn, lines), fmt = next(iter(d["lines"].items())), d["formats"][0]
        import random as _random
        rr = _random.Random(sum(map(ord, "".join(lines))))
        if len(lines) >= 2:
            for variant in ("add_then_render", "render_then_add", "touch_then_add"):
                k = rr.randint(1, len(lines) - 1)
                if d.get("closing_lines") and variant != "add_then_render" and len(lines) - d["closing_lines"] >= 1:
                    k = len(lines) - d["closing_lines"]       # the added lines bring no new species
                    obs["incremental_no_new_species"] += 1
                p1, p2 = work / f"inc_{variant}_1.{fmt}", work / f"inc_{variant}_2.{fmt}"
                p1.write_text("\n".join(lines[:k]) + "\n")
                p2.write_text("\n".join(lines[k:]) + "\n")
                d1 = dict(d, files=[str(p1)])
                steps = [{"op": "build", "slot": "T", "desc": d1}]
                if variant == "render_then_add":
                    steps.append(dict(op="render", slot="T", out=str(work / f"inc_{variant}_a"), tag="r0", **b))
                elif variant == "touch_then_add":
                    steps.append({"op": "touch", "slot": "T"})
                steps += [{"op": "add_file", "slot": "T", "file": str(p2), "format": fmt}, {"op": "configure", "slot": "T", "desc": d},
                          dict(op="render", slot="T", out=str(work / f"inc_{variant}_b"), tag="r1", **b)]
                res = run_plan({"steps": steps}, work, "0", f"inc_{variant}")
                if res.get("harness"):
                    continue
                obs["incremental_builds_compared"] += 1
                obs["renderings_compared"] += 1
                got = res["digests"].get("r1")
                if variant == "render_then_add" and res.get("error") and "r0" not in res["digests"]:
                    # the partial network itself could not be rendered (e.g. a species list that needs the full file): not a statement about history
                    obs["incremental_partial_render_refused"] += 1
                    continue
                if got != R:
                    diff = sorted(kk for kk in R if (got or {}).get(kk) != R[kk])
                    viol.append(violation("history_dependence", f"{d['kind']}: network built from lines[:{k}] then `{variant}` the remaining lines renders differently from "
                                          f"the network read in one go: {res.get('error') or diff[:4]}", variant=variant, split=k, desc_kind=d["kind"]))
    sample = {"description": d["kind"], "formats": d["formats"], "schedules": case["schedules"][:5], "files_in_tree": len(R)}
    return {"status": "violated" if viol else "held", "violations": viol[:30], "obs": dict(obs), "nontrivial": True, "sample": sample,
            "n_sched": len(case["schedules"])}


NSAMPLES = 3


def aggregate(results, cases):
    return {"distinct_nontrivial": sum(r.get("n_sched", 0) for r in results), "evaluations": sum((r.get("obs") or {}).get("renderings_compared", 0) for r in results)}
