"""C10 - generated sources are self-contained: every symbol used is declared first.

Deciding step: a grid of (input format(s), dust model, back-end, shielding tables, thermal
processes) is rendered by the real generator on small networks that contain every reaction type
the (format, model) pair supports; *every* emitted translation unit is compiled (clang-14 with
sanitizers, and an independent `g++ -fsyntax-only` pass), all units are linked with the driver and
one call of each entry point (EvalRates, Fex, Jac, renormalisation) is executed.  Compiler and
linker diagnostics about undeclared / redefined / unresolved names are the events.  This is the
weakest fit of the family: the deciding observation is made by a compiler run on generated input.
"""
from __future__ import annotations

import random
import re
import subprocess
import traceback
from collections import Counter

from .. import common
from ..common import violation
from ..cxx import lab
from ..gen import encode
from . import c05, c11
from . import structural as S

ID = "C10"
LEVEL = "exploration"
BATCH = 1
TIMEOUT = 900
REQUIRED_OBS = ["projects_compiled", "units_compiled", "linked_and_executed", "gxx_syntax_checked", "fmt_kida", "fmt_umist", "fmt_krome", "fmt_leeds",
                "fmt_uclchem", "fmt_naunet", "fmt_mixed", "model_hh93", "model_rr07", "model_rr07x", "model_hh93i", "with_thermal", "with_shielding",
                "backend_dense", "backend_sparse", "backend_odeint", "backend_cusparse"]
RULE = ("configuration grid {kida, umist, krome, leeds, uclchem, naunet, mixtures of two} x dust model {none, hh93, hh93i, rr07, rr07x} x "
        "{dense, sparse, rosenbrock4} x shielding tables on/off x cooling on/off x network variants (with/without H2, with/without the atomic "
        "species of every element, grain group 0/1); combinations naunet refuses with an exception are counted as refused; non-trivial = a "
        "dust model or a mixture or a thermal/shielding option is active; distinct by configuration tuple")
ASSUMPTIONS = ["solver API declarations come from the /verif shims (each shim header declares only what the real header of that name declares, of what naunet uses)",
               "diagnostics considered: errors of clang-14 and g++ -fsyntax-only, link errors, run-time failure of the first call of each entry point"]

FORMATS = ["kida", "umist", "krome", "leeds", "uclchem", "naunet"]
MODELS = ["", "hh93", "hh93i", "rr07", "rr07x"]


def gas_reactions(rng, fmt, with_h2=True, atoms=True):
    c = c05.make_case(rng, fmt) if fmt != "krome" else None
    if fmt == "krome":
        reacs = [{"reactants": ["H", "H"], "products": ["H2"], "idx": 1, "tmin": -1, "tmax": -1, "rate": "1.0d-17*sqrt(Tgas)"},
                 {"reactants": ["H2", "e-"], "products": ["H", "H", "e-"], "idx": 2, "tmin": 10, "tmax": 1e4, "rate": "2.3d-9*(T32)**(-0.5)*exp(-1.0d4*invT)"},
                 {"reactants": ["C", "O"], "products": ["CO"], "idx": 3, "tmin": -1, "tmax": -1, "rate": "4.69d-19*(T32)**1.52*exp(50.5*invT)*n(idx_H)/Hnuclei"},
                 {"reactants": ["CO"], "products": ["C", "O"], "idx": 4, "tmin": -1, "tmax": -1, "rate": "2.0d-10*user_crate*exp(-2.5*user_Av)*uscl"}]
        # rate expressions that read the abundances of charged species (n(idx_Xp), n(idx_Xm)): the index macros they are rewritten to
        # must be the ones naunet_macros.h defines
        extra = [{"reactants": ["H+", "e-"], "products": ["H"], "tmin": -1, "tmax": -1, "rate": "3.5d-12*(T32)**(-0.7)*n(idx_Hp)/Hnuclei"},
                 {"reactants": ["H", "e-"], "products": ["H-"], "tmin": -1, "tmax": -1, "rate": "1.4d-18*Tgas**0.928*exp(-1.0*Tgas/1.62d4)*(1.0+n(idx_Hm)/Hnuclei)"},
                 {"reactants": ["C+", "e-"], "products": ["C"], "tmin": 10, "tmax": 1e4, "rate": "4.4d-12*n(idx_Cp)/(n(idx_Cp)+n(idx_C)+1d-40)"}]
        for e in extra:
            if rng.random() < 0.6:
                reacs.append(dict(e, idx=len(reacs) + 1))
        return reacs
    reacs = c["reactions"][:14]
    if not with_h2:
        reacs = [r for r in reacs if "H2" not in r["reactants"] + r["products"]]
    return reacs


def make_case(rng, i):
    fmt = (FORMATS + ["mixed"])[i % 7]
    model = MODELS[(i // 7) % 5]
    backend = ["dense", "sparse", "odeint", "cusparse"][i % 4]        # 7 formats x 5 models x 4 back-ends: coprime cycle lengths cover the grid
    case = {"format": fmt, "model": model, "backend": backend, "thermal": rng.random() < 0.35, "shielding": rng.random() < 0.4,
            "with_h2": rng.random() < 0.7, "with_atoms": rng.random() < 0.7, "seed": rng.getrandbits(32), "grain_group": rng.random() < 0.3}
    if fmt == "mixed":
        case["formats"] = rng.sample(["kida", "umist", "leeds", "uclchem", "naunet", "krome"], 2)
    return case


def gen_cases(tier):
    rng = common.rng_for(ID)
    n = 84 if tier == "quick" else 840
    return [make_case(random.Random(rng.getrandbits(64)), i) for i in range(n)]


def files_for(case, rng, work):
    fmts = case.get("formats") or [case["format"]]
    files, formats = [], []
    model = case["model"]
    for k, fmt in enumerate(fmts):
        lines = []
        if fmt == "krome":
            lines += ["@common:user_crate,user_Av", "@var:uscl = 1.0e17*user_crate", "@format:idx,R,R,R,P,P,P,Tmin,Tmax,rate"]
            for r in gas_reactions(rng, "krome"):
                lines.append(encode.krome_line(r, 3, 3))
            # directives may appear anywhere in a KROME file: symbols introduced after the first reaction
            lines += ["@common:user_late", "@var:ulate = 2.0*user_late",
                      encode.krome_line({"reactants": ["O", "H"], "products": ["OH"], "idx": 9, "tmin": -1, "tmax": -1, "rate": "1.0d-18*ulate*(T32)**0.5"}, 3, 3)]
        else:
            reacs = list(gas_reactions(rng, fmt, case["with_h2"]))
            if model and fmt in ("leeds", "uclchem"):
                pair_model = model
                grp = 1 if (case.get("grain_group") and len(fmts) == 1) else 0
                gc = c11.make_case(rng, fmt, pair_model if (fmt, pair_model) in c11.PAIRS else ("hh93" if fmt == "leeds" else "rr07"), group=grp)
                implemented = {"hh93": {"freeze", "thermal", "photon", "cosmicray", "recombine", "ecapture", "surface", "reactive"},
                               "hh93i": {"freeze", "thermal", "photon", "cosmicray", "recombine", "ecapture", "surface", "reactive"},
                               "rr07": {"freeze", "photon", "cosmicray", "h2"}, "rr07x": {"freeze", "photon", "cosmicray", "h2", "thermal"}}[model]
                keep = [r for r in gc["reactions"] if r["kind"] != "gas"]
                if (fmt, model) not in c11.PAIRS and rng.random() < 0.8:
                    # cross pair (e.g. uclchem + hh93i): ask only for what the dust model implements, so that the symbol plumbing
                    # between a format's reaction class and a foreign dust model is compiled rather than refused
                    keep = [r for r in keep if r["kind"] in implemented and not (fmt == "uclchem" and r["kind"] == "h2" and model.startswith("hh"))]
                reacs += keep
                case.setdefault("user_eb", {}).update({("G" if fmt == "leeds" else "#") + (str(grp) if grp else "") + g: v for g, v in gc["user_eb"].items()})
            for j, r in enumerate(reacs):
                r = dict(r, idx=j + 1 + 1000 * k)
                lines.append(encode.LINE[fmt](r))
        if case["with_atoms"] and fmt != "krome":
            # the atomic species of the common elements, as an inert reaction
            extra = {"kida": "H          He                    H          He", }
        p = work / f"net{k}.{fmt}"
        p.write_text("\n".join(lines) + "\n")
        files.append(str(p))
        formats.append(fmt)
    return files, formats


def classify(diag: str, case, unit: str, text_of) -> dict:
    w = {}
    fmts = case.get("formats") or [case["format"]]
    if "uclchem" in fmts and re.search(r"undeclared identifier 'IDX_H2I'", diag):
        w["mechanism"] = "C10/uclchem-format-requires-H2-species"
    elif case["model"] == "hh93i" and re.search(r"undeclared identifier 'stick'", diag) and "leeds" not in fmts:
        w["mechanism"] = "C10/hh93i-needs-leeds-sticking-coefficient"
    elif unit.startswith("naunet_renorm") and "expected expression" in diag:
        w["mechanism"] = "C10/renorm-factor-empty-without-atomic-species"
    return w


def run_case(case, ctx):
    from naunet import chemistrydata
    from naunet.network import Network
    from naunet.species import Species
    obs, viol = Counter(), []
    work = ctx.fresh_dir("p")
    rng = random.Random(case["seed"])
    fmts = case.get("formats") or [case["format"]]
    obs["fmt_" + case["format"]] += 1
    if case["model"]:
        obs["model_" + case["model"]] += 1
    obs["backend_" + case["backend"]] += 1
    sample = {k: case[k] for k in ("format", "model", "backend", "thermal", "shielding", "with_h2", "with_atoms")}
    sample["formats"] = fmts
    if case.get("grain_group") and case["model"] and case["format"] in ("leeds", "uclchem"):
        obs["grain_group_1_projects"] += 1
    Species.reset()
    chemistrydata.user_binding_energy.clear()
    try:
        files, formats = files_for(case, rng, work)
        if case.get("user_eb"):
            chemistrydata.update_binding_energy(case["user_eb"])
        kw = {}
        if case["shielding"]:
            co = rng.choice(["V09Table", "VB88Table"])
            if case["backend"] == "cusparse":
                co = "V09Table"      # the VB88 table is declared for device == "cpu" only (spline on host arrays): not a supported GPU option
            kw["shielding"] = {"H2": "L96Table", "CO": co, "N2": "L13Table"}
            obs["with_shielding"] += 1
        if case["thermal"]:
            kw["required_species"] = ["H", "e-", "He", "He+", "H+", "He++"]
            kw["cooling"] = rng.sample(sorted(S.COOLING), rng.randint(1, 4))
            obs["with_thermal"] += 1
        elif case["with_atoms"]:
            kw["required_species"] = ["H", "He", "C", "N", "O", "S", "Si", "Mg", "Fe", "Na", "Cl", "D"]
        net = Network(filelist=files, fileformats=formats, grain_model=case["model"], **kw)
        proj = S.render(net, case["backend"], work / "proj")
    except Exception as e:
        obs["refused"] += 1
        return {"status": "refused", "violations": [], "obs": dict(obs), "nontrivial": False,
                "sample": dict(sample, refused=f"{type(e).__name__}: {str(e)[:120]}")}
    obs["projects_compiled"] += 1
    srcs = sorted((proj / "src").glob("*.cpp")) + sorted((proj / "src").glob("*.cu"))
    text_of = lambda u: (proj / "src" / u).read_text()
    # ---- independent opinion: g++ -fsyntax-only on every unit (C++ back-ends; the CUDA text is compiled by clang under the emulation only)
    for u in (srcs if case["backend"] != "cusparse" else []):
        p = subprocess.run(["g++", "-std=c++14", "-fsyntax-only", "-I", str(lab.SHIM), "-I", str(proj / "include"), str(u)], capture_output=True, text=True, timeout=300)
        obs["gxx_syntax_checked"] += 1
        if p.returncode != 0:
            first = next((l for l in p.stderr.splitlines() if "error:" in l), p.stderr[:200])
            d = re.sub(r"‘|’", "'", first)
            d2 = d.replace("was not declared in this scope", "undeclared identifier")
            m = re.search(r"'(\w+)' undeclared identifier", d2)
            diag = f"undeclared identifier '{m.group(1)}'" if m else d2
            viol.append(violation("unit_does_not_compile", f"g++ {u.name}: {d[-200:]} [{'+'.join(fmts)}, model={case['model'] or 'none'}, {case['backend']}]",
                                  unit=u.name, **classify(diag + " " + d2, case, u.name, text_of)))
    # ---- sanitizer build of every unit + link + first calls
    try:
        if case["backend"] == "cusparse":
            b = lab.build_cusparse(proj, work / "b", ctx.cache, with_naunet=True)
        else:
            b = lab.build_cvode(proj, work / "b", case["backend"], ctx.cache) if case["backend"] != "odeint" else lab.build_odeint(proj, work / "b", ctx.cache)
        obs["units_compiled"] += len(srcs)
    except lab.BuildError as e:
        diag = "; ".join(e.diagnostics()[:3]) or e.stderr[-300:]
        if not any(v["witness"].get("unit") == e.unit for v in viol):
            viol.append(violation("unit_does_not_compile" if e.unit != "link" else "link_error", f"clang {e.unit}: {diag[-300:]} [{'+'.join(fmts)}, model={case['model'] or 'none'}]",
                                  unit=e.unit, **classify(diag, case, e.unit, text_of)))
        return {"status": "violated", "violations": viol[:6], "obs": dict(obs), "nontrivial": True, "sample": sample}
    mac = lab.parse_macros(proj)
    n = max(1, mac["NSPECIES"] + (1 if case["thermal"] else 0))
    y = " ".join(lab.fmt(0.5 + 0.01 * i) for i in range(n - (1 if case["thermal"] else 0))) + (" 5000.0" if case["thermal"] else "")
    cmds = ["info"] + [f"set {f} {v}" for f, v in (("nH", "1e4"), ("Tgas", "50"), ("Tdust", "15"), ("zeta", "1.3e-17"), ("Av", "2.0"))] + ["y " + y, "rates", "fex", "jac"]
    if "H" in mac["ELEM"]:
        cmds.append("renorm 1 " + y)
    if case["backend"] == "cusparse":
        # two systems through the emulated kernels, then the generated class: Init / Solve (one mock CVode call) / Finalize
        cmds = ["info", "nsys 2 2"] + [f"set -1 {f} {v}" for f, v in (("nH", "1e4"), ("Tgas", "50"), ("Tdust", "15"), ("zeta", "1.3e-17"), ("Av", "2.0"))] + \
               ["y " + y + " " + y, "rates", "fex", "jac", "script 1 0 1.0", "solve 1.0"]
    rr = lab.run_driver(b["exe"], cmds, work / "b", leaks=(case["backend"] != "cusparse"))
    asan = [l for l in rr.asan]
    hard = [l for l in rr.ubsan if "division by zero" not in l]
    if rr.timed_out or asan or hard or rr.shim_abort or (rr.returncode not in (0, 87)):
        viol.append(violation("first_call_failed", f"running EvalRates/Fex/Jac/Renorm once: {(asan or hard or [rr.stderr[-200:]])[0][:250]}", stderr=rr.stderr[-800:]))
    else:
        obs["linked_and_executed"] += 1
    nontrivial = bool(case["model"] or case["format"] == "mixed" or case["thermal"] or case["shielding"])
    return {"status": "violated" if viol else "held", "violations": viol[:6], "obs": dict(obs), "nontrivial": nontrivial, "sample": sample}


def aggregate(results, cases):
    tup = {(c["format"], c["model"], c["backend"], c["thermal"], c["shielding"]) for c in cases}
    refused = Counter()
    for r in results:
        s = r.get("sample") or {}
        if s.get("refused"):
            refused[(s.get("format"), s.get("model"), s["refused"][:60])] += 1
    return {"distinct_configurations": len(tup), "refused_by_reason": {f"{k[0]}+{k[1] or 'none'}: {k[2]}": v for k, v in refused.most_common(12)}}
