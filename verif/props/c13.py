"""C13 - rate and ODE modifiers change exactly what the user targeted.

Deciding step (differential): the same network is rendered twice by the real generator - with
and without the modifiers, through the API or through `naunet init ... --render` (configuration
file path) - both renderings are compiled and executed on the same abundances; the differences
of the compiled rate vectors and of the compiled derivatives (identical injected rates) are
compared with the abstract modifier set.
"""
from __future__ import annotations

import os
import random
import traceback
from collections import Counter

from .. import common
from ..common import close, violation
from ..cxx import lab
from ..gen import chem, encode
from . import c01
from . import structural as S

ID = "C13"
LEVEL = "exploration"
BATCH = 1
TIMEOUT = 600
REQUIRED_OBS = ["rate_entries_compared", "ydot_entries_compared", "entry_api", "entry_cli", "variant_shared_index", "variant_unindexed",
                "variant_partial_index", "key_absent", "toml_modifiers_checked"]
RULE = ("networks with distinct / shared / absent / missing (-1) / fully unindexed reaction indices; rate modifiers that are numbers, "
        "parameter names and arithmetic; ODE modifiers with 1-3 dependency species, signed factors; entry through the API and through "
        "`naunet init --rate-modifier/--ode-modifier --render`; non-trivial = a modifier key matches >= 1 reaction and another key "
        "matches none, or an ODE modifier is present; distinct by sha1 of the case")
ASSUMPTIONS = c01.ASSUMPTIONS + ["modifier expressions are evaluated in Python with the NaunetData values the harness sets"]

PARAMS = {"nH": 100.0, "Tgas": 50.0, "zeta": 0.7, "Av": 0.0, "omega": 0.5}


def make_case(rng, cli):
    nspec, nreac = rng.randint(3, 8), rng.randint(2, 12)
    net = chem.structural_network(rng, nspec, nreac, extra_isolated=0)
    for r in net["reactions"]:
        r["pseudo"] = None
    reacs = net["reactions"]
    variant = rng.choice(["distinct", "shared_index", "unindexed", "partial_index"])
    base = rng.randint(1, 500)
    for i, r in enumerate(reacs):
        r["idx"] = base + 3 * i
    if variant == "shared_index" and len(reacs) >= 2:
        for _ in range(rng.randint(1, 2)):
            a, b = rng.sample(range(len(reacs)), 2)
            reacs[b]["idx"] = reacs[a]["idx"]
    elif variant == "unindexed":
        for r in reacs:
            r["idx"] = -1
    elif variant == "partial_index":
        if rng.random() < 0.5:
            # small file indices, so that list positions of the un-indexed reactions coincide with indices other reactions carry
            off = rng.choice([0, 0, 1])
            for i, r in enumerate(reacs):
                r["idx"] = i + off
        for r in rng.sample(reacs, max(1, len(reacs) // 3)):
            r["idx"] = -1
    # temperature windows: none, containing the evaluation temperature (50 K), or excluding it - a modifier replaces the
    # coefficient as a whole, whatever window the original carried
    for r in reacs:
        r["tmin"], r["tmax"] = rng.choice([(-1.0, -1.0), (-1.0, -1.0), (10.0, 300.0), (100.0, 300.0), (5.0, 20.0), (-1.0, 30.0), (80.0, -1.0)])
    eff = [(i if variant == "unindexed" else r["idx"]) for i, r in enumerate(reacs)]   # index a modifier key is matched against
    present = sorted({e for e in eff if e != -1})
    keys = rng.sample(present, min(len(present), rng.randint(1, 3))) if present else []
    if variant == "partial_index":
        # keys equal to the list position of an un-indexed reaction: that reaction carries no index and must stay untouched
        pos = [i for i, e in enumerate(eff) if e == -1]
        keys = sorted(set(keys) | set(rng.sample(pos, min(len(pos), 2))))
    absent = max(present + [0]) + 1000
    exprs = [("1.25e-9", 1.25e-9), ("zeta", PARAMS["zeta"]), ("2.0*zeta", 2.0 * PARAMS["zeta"]), ("nH*1e-3 + 0.5", PARAMS["nH"] * 1e-3 + 0.5),
             ("Tgas/100.0", PARAMS["Tgas"] / 100.0), ("3.5", 3.5), ("0.0", 0.0)]
    rmod = {str(k): list(rng.choice(exprs)) for k in keys}
    rmod[str(absent)] = list(rng.choice(exprs))
    case = {"net": net, "alphas": [round(a, 3) for a in chem.distinct_alphas(rng, len(reacs))], "entry": "api", "variant": variant,
            "rate_modifier": rmod, "eff_index": eff, "cli": cli, "indexed": True}
    if rng.random() < 0.7:
        case["ode_modifier"] = c01.make_modifiers(rng, net, nmax=2, maxdeps=3)
        compound = [("-nH*0.5 + 2.0*zeta", -PARAMS["nH"] * 0.5 + 2.0 * PARAMS["zeta"]), ("-1.0e3*zeta - 0.25", -1.0e3 * PARAMS["zeta"] - 0.25),
                    ("-zeta + nH*0.125", -PARAMS["zeta"] + PARAMS["nH"] * 0.125), ("2.0 - nH*0.01", 2.0 - PARAMS["nH"] * 0.01)]
        for m in case["ode_modifier"].values():      # arithmetic with signs; the CLI syntax only excludes ',' ':' ';'
            m["factors"] = [(list(rng.choice(compound)) if rng.random() < 0.4 else (f, v)) for f, v in m["factors"]]
            m["factors"] = [tuple(x) for x in m["factors"]]
    names = [s["name"] for s in net["species"]]
    case["ys"] = [{n: 0.5 + 1.5 * rng.random() for n in names} for _ in range(2)]
    case["ks"] = [chem.distinct_alphas(rng, max(1, len(reacs)))]
    case["data"] = dict(PARAMS)
    return case


def gen_cases(tier):
    rng = common.rng_for(ID)
    n = 32 if tier == "quick" else 400
    return [make_case(random.Random(rng.getrandbits(64)), cli=(i % 2 == 1)) for i in range(n)]


def write_file(case, work):
    lines = []
    for r, a in zip(case["net"]["reactions"], case["alphas"]):
        rr = dict(r, alpha=a, beta=0.0, gamma=0.0, tmin=r.get("tmin", -1.0), tmax=r.get("tmax", -1.0), type=100)
        lines.append(encode.naunet_line(rr))
    p = work / "net.naunet"
    p.write_text("\n".join(lines) + "\n")
    return p


def build_api(case, work, with_mods):
    from naunet.network import Network
    from naunet.species import Species
    Species.reset()
    p = write_file(case, work)
    kw = {}
    if with_mods:
        kw["rate_modifier"] = {int(k): v[0] for k, v in case["rate_modifier"].items()}
        if case.get("ode_modifier"):
            kw["ode_modifier"] = {k: {"factors": [f[0] for f in v["factors"]], "reactants": v["reactants"]} for k, v in case["ode_modifier"].items()}
    net = Network(filelist=str(p), fileformats="naunet", **kw)
    if with_mods:
        # the caller goes on using its own dictionaries (e.g. for the next network of a parameter study): the network built above keeps
        # the modifiers it was given
        others = [e for e in case["eff_index"] if e != -1 and str(e) not in case["rate_modifier"]]
        for e in others[:2]:
            kw["rate_modifier"][int(e)] = "7.77e7"
        # (only new top-level entries: the network takes a shallow copy of what it is given, the nested factor lists stay shared - asking for
        #  more would go beyond the property)
        if kw.get("ode_modifier") is not None:
            kw["ode_modifier"]["__later__"] = {"factors": ["1.0"], "reactants": [[]]}
    proj = work / ("with" if with_mods else "without")
    net.to_code(method="dense", path=str(proj))
    return proj


def build_cli(case, work):
    from cleo.testers.command_tester import CommandTester
    from naunet.console.application import Application
    from naunet.species import Species
    import tomlkit
    Species.reset()
    proj = work / "cli"
    proj.mkdir()
    write_file(case, proj)
    rm = ", ".join(f"{k}: {v[0]}" for k, v in case["rate_modifier"].items())
    om = []
    for sp, m in (case.get("ode_modifier") or {}).items():
        for (f, _), deps in zip(m["factors"], m["reactants"]):
            om.append(f"{sp}:{f},[{' '.join(deps)}]")
    args = ["--name=verifproj", "--description=x", "--loading=", "--elements=" + ", ".join(chem.DEFAULT_ELEMENTS),
            "--pseudo-elements=" + ", ".join(["CR", "CRP", "XRAY", "Photon", "PHOTON", "CRPHOT", "X", "M", "p", "o", "m", "c-", "l-", "g"]),
            "--element-replacement=", "--surface-prefix=#", "--bulk-prefix=@", "--allowed-species=", "--extra-species=", "--binding=", "--yield=",
            "--grain-symbol=GRAIN", "--grain-model=", "--network-files=net.naunet", "--file-formats=naunet", "--heating=", "--cooling=", "--shielding=",
            f'--rate-modifier="{rm}"', "--solver=cvode", "--device=cpu", "--method=dense", "--render", "--render-force"]
    if om:
        if len(case["net"]["reactions"]) % 3 == 0:
            # the option may be repeated: one occurrence per term, a species may be named by several occurrences
            for term in om:
                args.append(f'--ode-modifier="{term}"')
        else:
            args.append(f'--ode-modifier="{";".join(om)}"')
    cwd = os.getcwd()
    os.chdir(proj)
    try:
        tester = CommandTester(Application().find("init"))
        def q(a):
            if "=" in a and not a.endswith('"'):
                k, v = a.split("=", 1)
                return f'{k}="{v}"'
            return a
        rc = tester.execute(" ".join(q(a) for a in args))
    finally:
        os.chdir(cwd)
    toml = tomlkit.loads((proj / "naunet_config.toml").read_text())
    return proj, rc, toml


def run_case(case, ctx):
    obs, viol = Counter(), []
    work = ctx.fresh_dir("m")
    reacs = case["net"]["reactions"]
    obs["variant_" + case["variant"]] += 1
    obs["entry_cli" if case["cli"] else "entry_api"] += 1
    try:
        p0 = build_api(case, work, False)
        if case["cli"]:
            p1, rc, toml = build_cli(case, work)
            chem_t = toml["chemistry"]
            obs["toml_modifiers_checked"] += 1
            want_rm = {k: v[0] for k, v in case["rate_modifier"].items()}
            got_rm = {str(k): str(v) for k, v in chem_t["rate_modifier"].items()}
            if got_rm != want_rm:
                viol.append(violation("config_rate_modifier", f"naunet_config.toml rate_modifier {got_rm} != requested {want_rm}"))
            want_om = {k: {"factors": [f[0] for f in v["factors"]], "reactants": v["reactants"]} for k, v in (case.get("ode_modifier") or {}).items()}
            got_om = {str(k): {"factors": [str(x).strip() for x in v["factors"]], "reactants": [list(map(str, d)) for d in v["reactants"]]}
                      for k, v in chem_t["ode_modifier"].items()}
            if got_om != want_om:
                viol.append(violation("config_ode_modifier", f"naunet_config.toml ode_modifier {got_om} != requested {want_om}"))
            if rc != 0 or not (p1 / "src" / "naunet_fex.cpp").exists():
                viol.append(violation("cli_render_failed", f"naunet init --render exited {rc}"))
                return {"status": "violated", "violations": viol, "obs": dict(obs)}
            # a configuration file edited by hand: purely numeric modifier values written as TOML numbers (the bundled ism example
            # carries `8274 = 0.0`), then `naunet render` from the file alone
            numeric = {}
            for k, v in case["rate_modifier"].items():
                try:
                    numeric[k] = float(v[0])
                except ValueError:
                    pass
            if numeric and len(reacs) % 2 == 0:
                import tomlkit
                doc = tomlkit.loads((p1 / "naunet_config.toml").read_text())
                for k, fv in numeric.items():
                    doc["chemistry"]["rate_modifier"][k] = fv
                (p1 / "naunet_config.toml").write_text(tomlkit.dumps(doc))
                from .. import clihelp
                from naunet.species import Species
                Species.reset()
                rc2, o2, e2 = clihelp.run_command("render", "--force", p1)
                obs["rerendered_from_edited_config"] += 1
                if rc2 != 0:
                    viol.append(violation("cli_render_failed", f"naunet render after writing numeric modifier values exited {rc2}: {e2[-200:]}"))
                    return {"status": "violated", "violations": viol, "obs": dict(obs)}
        else:
            p1 = build_api(case, work, True)
        b0 = lab.build_cvode(p0, work / "b0", "dense", ctx.cache, core_only=True)
        b1 = lab.build_cvode(p1, work / "b1", "dense", ctx.cache, core_only=True)
    except lab.BuildError as e:
        viol.append(violation("emitted_code_does_not_compile", f"{e.unit}: {'; '.join(e.diagnostics()[:2])}"))
        return {"status": "violated", "violations": viol, "obs": dict(obs)}
    except Exception as e:
        viol.append(violation("generator_raised", f"{type(e).__name__}: {e}", trace=traceback.format_exc()[-1200:]))
        return {"status": "violated", "violations": viol, "obs": dict(obs)}
    m0, m1 = lab.parse_macros(p0), lab.parse_macros(p1)
    if m0["IDX"] != m1["IDX"]:
        viol.append(violation("species_slots_changed_by_modifiers", f"{m0['IDX']} vs {m1['IDX']}"))
        return {"status": "violated", "violations": viol, "obs": dict(obs)}
    idx = {"IDX_" + k: int(v) for k, v in m0["IDX"].items() if str(v).isdigit()}
    slots, probs = S.slot_map(case["net"]["species"], idx, m0["NSPECIES"])
    n = m0["NSPECIES"]
    outs = []
    for b, tag in ((b0, "b0"), (b1, "b1")):
        cmds = [f"set {k} {lab.fmt(v)}" for k, v in case["data"].items()]
        for yv in case["ys"]:
            y = [0.0] * n
            for nm, s in slots.items():
                y[s] = yv[nm]
            cmds += ["y " + " ".join(lab.fmt(v) for v in y), "rates", "mode inject", "use_k " + " ".join(lab.fmt(v) for v in case["ks"][0]), "fex", "mode pass"]
        rr = lab.run_driver(b["exe"], cmds, work / tag)
        if rr.crashed():
            viol.append(violation("sanitizer_report_or_crash", (rr.sanitizer_reports or ["crash"])[0][:300], stderr=rr.stderr[-800:]))
            return {"status": "violated", "violations": viol, "obs": dict(obs)}
        outs.append(rr)
    # ---- rate coefficients: exactly the reactions carrying a modifier key change, to the modifier value
    matched = {k: 0 for k in case["rate_modifier"]}
    for pi in range(len(case["ys"])):
        k0, k1 = outs[0].by_ev("rates")[pi]["k"], outs[1].by_ev("rates")[pi]["k"]
        for ri in range(len(reacs)):
            key = str(case["eff_index"][ri])
            obs["rate_entries_compared"] += 1
            if case["eff_index"][ri] != -1 and key in case["rate_modifier"]:
                want = case["rate_modifier"][key][1]
                matched[key] += 1
                tmn, tmx = reacs[ri].get("tmin", -1.0), reacs[ri].get("tmax", -1.0)
                if (tmn > 0 and case["data"]["Tgas"] < tmn) or (tmx > 0 and case["data"]["Tgas"] >= tmx):
                    obs["targeted_outside_original_window"] += 1
                if not close(k1[ri], want, None, rel=1e-13):
                    viol.append(violation("targeted_rate_not_replaced", f"reaction {ri} (index {key}, variant {case['variant']}): k={k1[ri]!r}, modifier "
                                          f"`{case['rate_modifier'][key][0]}` = {want!r}", reaction=ri))
            elif k1[ri] != k0[ri]:
                viol.append(violation("untargeted_rate_changed", f"reaction {ri} (index {case['eff_index'][ri]}, variant {case['variant']}): k changed from "
                                      f"{k0[ri]!r} to {k1[ri]!r}; modifier keys {sorted(case['rate_modifier'])}", reaction=ri))
        # ---- derivatives under identical injected rates
        f0, f1 = outs[0].by_ev("fex")[pi]["ydot"], outs[1].by_ev("fex")[pi]["ydot"]
        y = [0.0] * n
        for nm, s in slots.items():
            y[s] = case["ys"][pi][nm]
        exp = [0.0] * n
        sc = [0.0] * n
        for sname, mod in (case.get("ode_modifier") or {}).items():
            for (fs, fv), deps in zip(mod["factors"], mod["reactants"]):
                t = fv
                for dname in deps:
                    t *= y[slots[dname]]
                exp[slots[sname]] += t
                sc[slots[sname]] += abs(t)
        for i in range(n):
            obs["ydot_entries_compared"] += 1
            d = f1[i] - f0[i]
            if not close(d, exp[i], sc[i] + abs(f0[i]), rel=1e-12):
                viol.append(violation("ode_modifier_effect", f"slot {i}: ydot(with) - ydot(without) = {d!r}, modifiers say {exp[i]!r}", slot=i,
                                      species=[k for k, v in slots.items() if v == i]))
    for k, c in matched.items():
        if c == 0:
            obs["key_absent"] += 1
    nontrivial = (any(c for c in matched.values()) and any(c == 0 for c in matched.values())) or bool(case.get("ode_modifier"))
    smp = S.describe(case)
    smp.update(variant=case["variant"], cli=case["cli"], rate_modifier={k: v[0] for k, v in case["rate_modifier"].items()}, indices=case["eff_index"][:12])
    return {"status": "violated" if viol else "held", "violations": viol[:8], "obs": dict(obs), "nontrivial": nontrivial, "sample": smp}
