"""C11 - grain-surface rate coefficients follow the selected dust model.

Deciding step: Leeds- and UCLCHEM-format grain reactions are read and rendered by the real naunet
under each dust model; the emitted EvalRates is compiled (UBSan on) and executed with randomised
NaunetData parameters and abundances (mantle zero / tiny / large); every grain k[i] is compared
with an independent implementation of the HH93 / RR07 formulae that takes constants, eb_<alias>
and mantle density from the compiled library.  Unsupported requests must raise.
"""
from __future__ import annotations

import random
import traceback
from collections import Counter

from .. import common
from ..common import close, violation
from ..cxx import lab
from ..gen import encode
from ..ref import grainlaws

ID = "C11"
LEVEL = "exploration"
BATCH = 1
TIMEOUT = 600
REQUIRED_OBS = ["grain_rates_compared", "model_hh93", "model_hh93i", "model_rr07", "model_rr07x", "refusals_checked", "kind_freeze", "kind_thermal",
                "kind_photon", "kind_cosmicray", "kind_surface", "kind_recombine", "kind_ecapture", "kind_h2", "kind_reactive", "mantle_zero_points",
                "user_binding_energy_species", "override_after_first_render_checked"]
RULE = ("per case one (format, dust model) pair: leeds x {hh93, hh93i}, uclchem x {rr07, rr07x}; a file with every grain reaction type "
        "the pair supports over 3-6 species of different mass, binding energy (RATE12 table or user table override) and yield (default "
        "or user override), plus requests the model does not implement (must raise); 4 parameter points with all NaunetData grain "
        "parameters randomised, mantle abundance zero / tiny / large; non-trivial = case has >= 4 grain reaction kinds; distinct by "
        "sha1 of the case")
ASSUMPTIONS = ["model formulae re-implemented from Hasegawa & Herbst 1993 / Walsh+2015 (hh93) and Roberts+2007 / UCLCHEM v1.3 (rr07)",
               "physical constants, eb_<alias> and GetMantleDens are read from the compiled library; tolerance 1e-10 relative"]

RATE12_EB = {"H": 600.0, "H2": 430.0, "He": 100.0, "C": 800.0, "N": 800.0, "CH4": 1090.0, "O": 800.0, "NH3": 5534.0, "OH": 2850.0, "H2O": 4800.0,
             "HCN": 2050.0, "CO": 1150.0, "N2": 790.0, "H2CO": 2050.0, "CH3OH": 4930.0, "O2": 1000.0, "CO2": 2990.0}
MASS = {"H": 1, "H2": 2, "He": 4, "C": 12, "N": 14, "CH4": 16, "O": 16, "NH3": 17, "OH": 17, "H2O": 18, "HCN": 27, "CO": 28, "N2": 28,
        "H2CO": 30, "CH3OH": 32, "O2": 32, "CO2": 44}


GRAIN_KEYS = {"rG", "gdens", "sites", "barr", "hop", "nMono", "opt_frz", "opt_thd", "opt_crd", "opt_uvd", "opt_rcd", "branch", "duty", "Tcr", "fr", "opt_h2d",
              "eb_crd", "eb_uvd", "eb_h2d", "crdeseff", "uvcreff", "h2deseff"}


def make_case(rng, fmt, model, group=0):
    gas = rng.sample(sorted(RATE12_EB), rng.randint(3, 6))
    if "H" not in gas:
        gas[0] = "H"
    pref = ("G" if fmt == "leeds" else "#") + (str(group) if group else "")
    gsym = "GRAIN" + (str(group) if group else "")
    user_eb = {g: round(rng.uniform(300, 6000), 1) for g in gas if rng.random() < 0.35}
    user_yield = {g: rng.choice([1e-3, 2.5e-3, 0.05, 0.3]) for g in gas if rng.random() < 0.35}
    sp = {g: {"name": pref + g, "gas": g, "A": MASS[g], "eb": user_eb.get(g, RATE12_EB[g]), "yield": user_yield.get(g), "charge": 0, "electron": False}
          for g in gas}
    reacs = []

    def add(kind, reactants, products, alpha=1.0, **kw):
        r = {"kind": kind, "reactants": reactants, "products": products, "alpha": alpha, "beta": 0.0, "gamma": 0.0, "idx": len(reacs) + 1,
             "tmin": 0.0, "tmax": 0.0, "pseudo": None}
        r.update(kw)
        reacs.append(r)

    if fmt == "leeds":
        for g in gas:
            add("freeze", [g], [pref + g], alpha=rng.choice([1.0, 0.5, 0.3]), rtype=7, species=g)
            add("thermal", [pref + g], [g], rtype=8, species=g)
            add("cosmicray", [pref + g], [g], rtype=9, species=g, pseudo="CRP")
            add("photon", [pref + g], [g], rtype=10, species=g, pseudo="PHOTON")
        ions = [g for g in gas if g in ("H", "C", "O", "He", "N")][:2]
        for g in ions:
            # the charged grain may be named before or after the ion: the rate is built from the ion's mass either way
            rr = [g + "+", gsym + "-"]
            add("recombine", rr[::-1] if rng.random() < 0.5 else rr, [g, gsym + ("" if group else "0")], alpha=rng.choice([1.0, 0.5]), rtype=6, species=g + "+", ion_mass=MASS[g])
        ec = ["e-", gsym + ("" if group else "0")]
        add("ecapture", ec[::-1] if rng.random() < 0.5 else ec, [gsym + "-"], rtype=20)
        for _ in range(rng.randint(2, 4)):
            a, b = rng.choice(gas), rng.choice(gas)
            add("surface", [pref + a, pref + b], [pref + rng.choice(gas)], alpha=rng.choice([0.0, 500.0, 1200.0, 2500.0]), rtype=13, pair=[a, b])
        a, b = rng.choice(gas), rng.choice(gas)
        add("reactive", [pref + a, pref + b], [rng.choice(gas)], alpha=rng.choice([0.0, 800.0]), rtype=14, pair=[a, b])
    else:
        for g in gas:
            add("freeze", [g], [pref + g], alpha=rng.choice([1.0, 0.5]), marker="FREEZE", species=g)
            add("cosmicray", [pref + g], [g], marker="DESCR", species=g)
            add("photon", [pref + g], [g], marker="DEUVCR", species=g)
            add("h2", [pref + g], [g], marker="DESOH2", species=g)
            if model == "rr07x":
                add("thermal", [pref + g], [g], marker="THERM", species=g)
        add("freeze", ["C+"], [pref + "C"], alpha=1.0, marker="FREEZE", species="C+", ion=True)     # ions freeze out as the neutral ice
        if rng.random() < 0.6:
            # anions carry the charged-particle factor like cations do
            add("freeze", ["C-"], [pref + "C"], alpha=rng.choice([1.0, 0.5]), marker="FREEZE", species="C-", ion=True, ion_charge=-1)
            add("freeze", ["H-"], [pref + "H"], alpha=1.0, marker="FREEZE", species="H-", ion=True, ion_charge=-1, ion_A=1)
        if not group:
            # electron freeze-out carries no ice species: naunet assigns it to grain group 0 (documented), which exists only in group-0 networks
            add("freeze", ["E-"], ["H"], alpha=1.0, marker="FREEZE", species="E-", electron=True)
        # UCLCHEM networks always contain H2 (registered shielding) and H (H2-formation desorption)
        add("gas", ["H", "H"], ["H2"], alpha=1e-17, marker=None)
    points = []
    for pi in range(4):
        mant_mode = ["zero", "tiny", "large", "large"][pi]
        pt = {"nH": 10 ** rng.uniform(2, 7), "Tgas": rng.choice([rng.uniform(8, 29.9), rng.uniform(8, 200)]), "Tdust": rng.uniform(8, 60), "Av": rng.uniform(0, 10), "G0": rng.uniform(0.1, 100),
              "zeta": 10 ** rng.uniform(-17.5, -15), "zeta_cr": 10 ** rng.uniform(-17.5, -15), "zeta_xr": 0.0, "omega": 0.5,
              "rG": 10 ** rng.uniform(-5.5, -4.5), "gdens": 10 ** rng.uniform(-13, -11), "sites": rng.uniform(1e15, 2e15), "barr": rng.uniform(1e-8, 2e-8),
              "hop": rng.uniform(0.2, 0.5), "nMono": rng.choice([1.0, 2.0, 4.0]), "opt_frz": rng.choice([1.0, 0.0, 0.5]), "opt_thd": rng.choice([1.0, 0.0]),
              "opt_crd": rng.choice([1.0, 0.5]), "opt_uvd": rng.choice([1.0, 0.25]), "opt_rcd": rng.choice([1.0, 0.0]), "branch": rng.uniform(0.001, 0.1),
              "duty": 10 ** rng.uniform(-19.5, -18), "Tcr": rng.uniform(50, 90), "fr": rng.choice([1.0, 0.3]), "opt_h2d": rng.choice([1.0, 0.5]),
              "eb_crd": rng.choice([1.21e3, 5e3, 100.0]), "eb_uvd": rng.choice([1.0e4, 1000.0]), "eb_h2d": rng.choice([1.21e3, 6e3]),
              "crdeseff": 10 ** rng.uniform(4, 6), "uvcreff": 10 ** rng.uniform(-4, -2), "h2deseff": rng.uniform(0.001, 0.1),
              "mant_mode": mant_mode, "yscale": rng.uniform(0.5, 2.0)}
        points.append(pt)
    unsupported = []
    if fmt == "uclchem" and model == "rr07":
        unsupported.append({"kind": "thermal", "reactants": [pref + gas[0]], "products": [gas[0]], "alpha": 1.0, "beta": 0.0, "gamma": 0.0, "tmin": 0.0, "tmax": 0.0,
                            "marker": "THERM", "idx": 999})
    if fmt == "leeds" and model in ("hh93", "hh93i"):
        pass
    return {"format": fmt, "model": model, "group": group, "gas": gas, "species": sp, "user_eb": user_eb, "user_yield": user_yield, "reactions": reacs, "points": points,
            "unsupported": unsupported}


PAIRS = [("leeds", "hh93"), ("uclchem", "rr07"), ("leeds", "hh93i"), ("uclchem", "rr07x")]


def make_two_group_case(rng):
    """leeds + hh93 with two grain populations: group 0 (GX, GRAIN0/GRAIN-) and group 1 (G1X, GRAIN1/GRAIN1-), each with its own
    parameter set: a rate of a group-1 reaction must be built from the group-1 parameters."""
    c0 = make_case(rng, "leeds", "hh93", group=0)
    c1 = make_case(rng, "leeds", "hh93", group=1)
    for r in c0["reactions"]:
        r["group"] = 0
    for r in c1["reactions"]:
        r["group"] = 1
    c = dict(c0)
    c["reactions"] = c0["reactions"] + c1["reactions"]
    for i, r in enumerate(c["reactions"]):
        r["idx"] = i + 1
    c["species1"], c["gas1"] = c1["species"], c1["gas"]
    c["user_eb1"], c["user_yield1"] = c1["user_eb"], c1["user_yield"]
    c["points1"] = c1["points"]
    c["two_groups"] = True
    return c


def gen_cases(tier):
    rng = common.rng_for(ID)
    n = 32 if tier == "quick" else 480
    cases = [make_case(random.Random(rng.getrandbits(64)), *PAIRS[i % 4], group=(1 if i % 8 >= 6 else 0)) for i in range(n)]
    for _ in range(2 if tier == "quick" else 24):
        cases.append(make_two_group_case(random.Random(rng.getrandbits(64))))
    # cross pairs: the model does not implement what the file asks for -> must be refused, never a rate
    r = random.Random(rng.getrandbits(64))
    c = make_case(r, "leeds", "hh93")
    c["model"] = "rr07"
    c["expect_refusal"] = True
    cases.append(c)
    return cases


def run_case(case, ctx):
    from naunet import chemistrydata
    from naunet.network import Network
    from naunet.species import Species
    obs, viol = Counter(), []
    fmt, model = case["format"], case["model"]
    grp = case.get("group", 0)
    gs = str(grp) if grp else ""
    pref = ("G" if fmt == "leeds" else "#") + gs
    work = ctx.fresh_dir("g")
    if grp:
        obs["grain_group_1_cases"] += 1
    Species.reset()
    chemistrydata.user_binding_energy.clear()
    chemistrydata.user_photon_yield.clear()
    if case["user_eb"]:
        chemistrydata.update_binding_energy({pref + g: v for g, v in case["user_eb"].items()})
        obs["user_binding_energy_species"] += len(case["user_eb"])
    if case["user_yield"]:
        chemistrydata.update_photon_yield({pref + g: v for g, v in case["user_yield"].items()})
    two = bool(case.get("two_groups"))
    if two:
        obs["two_group_cases"] += 1
        chemistrydata.update_binding_energy({"G1" + g: v for g, v in case["user_eb1"].items()})
        chemistrydata.update_photon_yield({"G1" + g: v for g, v in case["user_yield1"].items()})
    obs["model_" + model] += 1

    def render(reactions, tag):
        lines = [encode.LINE[fmt](r) for r in reactions]
        p = work / f"net_{tag}.{fmt}"
        p.write_text("\n".join(lines) + "\n")
        Species.reset()
        net = Network(filelist=str(p), fileformats=fmt, grain_model=model)
        proj = work / f"proj_{tag}"
        net.to_code(method="dense", path=str(proj))
        return proj, lines

    # ---- refusals
    for u in case["unsupported"]:
        obs["refusals_checked"] += 1
        try:
            render(case["reactions"] + [u], "unsup")
            viol.append(violation("unsupported_request_produced_rate", f"{fmt}+{model}: {u['kind']} desorption is not implemented by the model but was rendered"))
        except (NotImplementedError,) as e:
            obs["refused_as_required"] += 1
        except Exception as e:
            obs["refused_as_required"] += 1
    if case.get("expect_refusal"):
        obs["refusals_checked"] += 1
        try:
            render(case["reactions"], "cross")
            viol.append(violation("unsupported_request_produced_rate", f"{fmt}+{model}: reaction types the model lacks were rendered without error"))
        except Exception:
            obs["refused_as_required"] += 1
        return {"status": "violated" if viol else "held", "violations": viol, "obs": dict(obs), "nontrivial": True, "sample": {"pair": [fmt, model], "expect": "refusal"}}
    try:
        proj, lines = render(case["reactions"], "main")
        b = lab.build_cvode(proj, work / "b", "dense", ctx.cache, core_only=True)
    except lab.BuildError as e:
        viol.append(violation("emitted_code_does_not_compile", f"{fmt}+{model}: {e.unit}: {'; '.join(e.diagnostics()[:2])}"))
        return {"status": "violated", "violations": viol, "obs": dict(obs)}
    except Exception as e:
        viol.append(violation("generator_raised", f"{fmt}+{model}: {type(e).__name__}: {e}", trace=traceback.format_exc()[-1000:]))
        return {"status": "violated", "violations": viol, "obs": dict(obs)}
    macros = lab.parse_macros(proj)
    fields = set(b["fields"])
    nsp = macros["NSPECIES"]
    idx = {k: int(v) for k, v in macros["IDX"].items() if str(v).isdigit()}
    cmds = ["consts", "defaults"]
    ys = []
    for pti, pt in enumerate(case["points"]):
        y = [pt["yscale"] * (0.3 + 0.1 * ((i * 7) % 11)) for i in range(nsp)]
        if two:
            for k, v in case["points1"][pti].items():
                if k in GRAIN_KEYS and (k + "1") in fields:
                    cmds.append(f"set {k}1 {lab.fmt(v)}")
        for g in case["gas"]:
            a = next((x for x in ("G" + gs + g + "I", "G" + g + "I") if x in idx), None)
            if a:
                y[idx[a]] = {"zero": 0.0, "tiny": 1e-40, "large": y[idx[a]]}[pt["mant_mode"]]
        ys.append(y)
        for k, v in pt.items():
            fk = k + gs if (k in GRAIN_KEYS and (k + gs) in fields) else k
            if fk in fields:
                cmds.append(f"set {fk} {lab.fmt(v)}")
        cmds += ["y " + " ".join(lab.fmt(v) for v in y), "rates", "mantle"]
    rr = lab.run_driver(b["exe"], cmds, work / "b")
    if rr.crashed():
        viol.append(violation("sanitizer_report_or_crash", (rr.sanitizer_reports or ["driver crashed"])[0][:300], stderr=rr.stderr[-1200:]))
        return {"status": "violated", "violations": viol, "obs": dict(obs)}
    if rr.ubsan:
        obs["ubsan_reports"] += len(rr.ubsan)
    consts = rr.by_ev("consts")[0]
    defaults = rr.by_ev("defaults")[0]
    kinds = set()
    for pi, (pt, kev, eev) in enumerate(zip(case["points"], rr.by_ev("rates"), rr.by_ev("mantle"))):
        env = dict(defaults)
        env.pop("ev", None)
        env.update({k: v for k, v in consts.items() if k != "ev"})
        env.update({k: v for k, v in pt.items() if k in fields or (k + gs) in fields})
        env["mant"] = eev["mantle"]
        if pt["mant_mode"] == "zero":
            obs["mantle_zero_points"] += 1
        y = ys[pi]
        if fmt == "leeds":
            # hh93: grain density is derived from the grain species of the network
            env["gdens"] = sum(y[idx[a]] for a in (("GRAIN0I", "GRAINM") if not grp else (f"GRAIN{gs}I", f"GRAIN{gs}M")) if a in idx)
        env["yH"] = y[idx["HI"]] if "HI" in idx else 0.0
        env0 = env
        for ri, r in enumerate(case["reactions"]):
            kind = r["kind"]
            if kind == "gas":
                continue
            kinds.add(kind)
            env = env0
            spec_tab = case["species"]
            if two and r.get("group") == 1:
                # group-1 reaction: group-1 parameters, group-1 grain density, group-1 species data
                env = dict(env0)
                env.update({k: v for k, v in case["points1"][pi].items() if k in GRAIN_KEYS})
                env["gdens"] = sum(y[idx[a]] for a in ("GRAIN1I", "GRAIN1M") if a in idx)
                spec_tab = case["species1"]
            try:
                if fmt == "leeds":
                    if kind in ("surface", "reactive"):
                        a, b2 = r["pair"]
                        # the Python-side binding energies are the generator's; eb_<alias> must agree with them
                        # the light-species rule of HH93 (tunnelling of GH / GH2) is keyed on the plain ice names
                        ref = grainlaws.hh93(kind, r, (spec_tab[a] | {"name": "G" + a}, spec_tab[b2] | {"name": "G" + b2}), env)
                    elif kind == "recombine":
                        ref = grainlaws.hh93(kind, r, {"A": r["ion_mass"]}, env)
                    elif kind == "ecapture":
                        ref = grainlaws.hh93(kind, r, None, env)
                    else:
                        spd = dict(spec_tab[r["species"]])
                        ref = grainlaws.hh93(kind, r, spd, env)
                else:
                    if r.get("electron"):
                        spd = {"electron": True, "charge": -1, "A": 0}
                    elif r.get("ion"):
                        spd = {"electron": False, "charge": r.get("ion_charge", 1), "A": r.get("ion_A", 12)}
                        if r.get("ion_charge", 1) < 0:
                            obs["anion_freeze_rates"] += 1
                    else:
                        spd = dict(case["species"][r["species"]])
                    ref = grainlaws.rr07(kind, r, spd, env)
            except KeyError as e:
                return {"status": "inconclusive", "violations": [], "obs": dict(obs), "lost": f"reference needs symbol {e}"}
            ref = float(ref)
            if fmt == "uclchem" and kind == "freeze" and not (pt["Tgas"] < 30.0):
                ref = 0.0          # documented UCLCHEM override: freeze-out is switched off at and above 30 K (window [0, 30))
                obs["freeze_outside_30K_window"] += 1
            obs["grain_rates_compared"] += 1
            obs["kind_" + kind] += 1
            if not close(kev["k"][ri], ref, None, rel=1e-10):
                viol.append(violation("grain_rate_mismatch", f"{fmt}+{model} {kind} ({lines[ri].strip()[:70]}): k={kev['k'][ri]!r}, model gives {ref!r} "
                                      f"(mantle {pt['mant_mode']})", rkind=kind, observed=kev["k"][ri], reference=ref, point=pt, species=r.get("species")))
        # eb_<alias> constants must be the species' own binding energies
        for g, spd in case["species"].items():
            c = consts.get(f"eb_G{gs}{g}I", consts.get(f"eb_G{g}I"))
            if c is not None:
                obs["binding_energy_constants_checked"] += 1
                if c != spd["eb"]:
                    viol.append(violation("binding_energy_constant", f"eb_G{g}I = {c!r}, expected {spd['eb']!r} (user table {g in case['user_eb']})"))
    # ---- multi-step: a binding-energy override registered after the first rendering must show in the next rendering of the same Network
    try:
        g = case["gas"][0]
        new_eb = round(case["species"][g]["eb"] * 1.37 + 11.0, 1)
        Species.reset()
        net2 = Network(filelist=str(work / f"net_main.{fmt}"), fileformats=fmt, grain_model=model)
        net2.to_code(method="dense", path=str(work / "seq1"))
        chemistrydata.update_binding_energy({pref + g: new_eb})
        net2.to_code(method="dense", path=str(work / "seq2"))
        import re as _re
        txt = (work / "seq2" / "src" / "naunet_constants.cpp").read_text()
        m = None
        for al in (f"G{gs}{g}I", f"G{g}I"):
            m = m or _re.search(r"double eb_" + _re.escape(al) + r"\s*=\s*([-+0-9.eE]+);", txt)
        obs["override_after_first_render_checked"] += 1
        if not m or float(m.group(1)) != new_eb:
            viol.append(violation("binding_energy_override_ignored", f"{fmt}+{model}: update_binding_energy({pref + g}={new_eb}) after a first rendering: second "
                                  f"rendering has eb_G{g}I = {m.group(1) if m else None}"))
    except Exception as e:
        viol.append(violation("generator_raised", f"re-render after binding-energy override: {type(e).__name__}: {e}"))
    # ---- multi-step: the dust model is switched on the same Network after a first rendering; the next rendering follows the new model exactly
    #      as a network constructed with it does
    other = {"hh93": "hh93i", "hh93i": "hh93", "rr07": "rr07x", "rr07x": "rr07"}[model]
    try:
        def rates_text(path):
            # everything the dust model can influence: rate statements, parameter struct, constants
            out = []
            for f in sorted((path / "src").glob("*.cpp")) + [path / "include" / "naunet_data.h", path / "include" / "naunet_constants.h"]:
                if f.name != "CMakeLists.txt":
                    out.append(f.read_text())
            return "\n".join(out)
        Species.reset()
        fresh = Network(filelist=str(work / f"net_main.{fmt}"), fileformats=fmt, grain_model=other)
        fresh_ok = True
        try:
            fresh.to_code(method="dense", path=str(work / "sw_fresh"))
        except Exception:
            fresh_ok = False          # the other model does not support every reaction of this file: nothing to compare
        if fresh_ok:
            Species.reset()
            net3 = Network(filelist=str(work / f"net_main.{fmt}"), fileformats=fmt, grain_model=model)
            net3.to_code(method="dense", path=str(work / "sw_a"))
            net3.grain_model = other
            net3.to_code(method="dense", path=str(work / "sw_b"))
            if rates_text(work / "sw_a") == rates_text(work / "sw_fresh"):
                obs["model_switch_indistinguishable"] += 1       # the two models render this file identically: nothing can be observed
            else:
                obs["model_switch_after_render_checked"] += 1
            if rates_text(work / "sw_b") != rates_text(work / "sw_fresh"):
                same_as_old = rates_text(work / "sw_b") == rates_text(work / "sw_a")
                viol.append(violation("model_switch_ignored", f"{fmt}: grain_model set to {other} after a rendering with {model}: the next rendering's rate "
                                      f"statements differ from a network constructed with {other}" + (" (they are still those of " + model + ")" if same_as_old else "")))
    except Exception as e:
        viol.append(violation("generator_raised", f"re-render after switching the dust model: {type(e).__name__}: {e}"))
    sample = {"pair": [fmt, model], "lines": lines[:4], "kinds": sorted(kinds), "user_eb": case["user_eb"], "user_yield": case["user_yield"]}
    return {"status": "violated" if viol else "held", "violations": viol[:8], "obs": dict(obs), "nontrivial": len(kinds) >= 4, "sample": sample}
