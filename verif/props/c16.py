"""C16 - renormalisation restores the reference elemental abundances.

Deciding step: the generated InitRenorm / RenormAbundance / SetReferenceAbund / Renorm of a real
rendered project (cvode through the SUNDIALS shim's dense LU, odeint through the ublas LU shim)
are compiled with UBSan float-divide-by-zero and executed on random positive abundance vectors;
the compiled library's own GetElementAbund / GetHNuclei evaluate the ratios afterwards.
"""
from __future__ import annotations

import math
import random
import traceback
from collections import Counter

from .. import common
from ..common import close, violation
from ..cxx import lab
from ..gen import chem
from . import structural as S

ID = "C16"
LEVEL = "exploration"
BATCH = 1
TIMEOUT = 600
REQUIRED_OBS = ["renorm_calls_checked", "ratios_checked", "identity_checked", "electron_checked", "backend_dense", "backend_odeint", "tag_grain_species",
                "tag_ice_species", "opt0_references", "opt1_references", "second_renorm_calls_checked"]
RULE = ("balanced-by-construction networks (multi-element molecules, D isotopologues, ions, electrons, ice species, optionally grain species "
        "GRAIN0/GRAIN-/GRAIN+) completed with the atomic species of every element; 8 random positive abundance vectors per case (6 "
        "decades inside a vector, overall scale over 30 decades), reference ratios from element totals (opt 0) and from another species "
        "vector (opt 1), plus the identity case (reference = the vector itself); cvode dense and odeint; cases whose coupling matrix has "
        "condition number > 1e7 are skipped and counted (tolerance 1e-10 x cond); non-trivial = >= 3 elements; distinct by sha1 of the case")
ASSUMPTIONS = ["linear solves are done by the shims' dense LU with partial pivoting (SUNLinSol_Dense / ublas lu_factorize stand-ins)",
               "tolerance 1e-7 relative on ratios"]


def make_case(rng):
    surface = rng.random() < 0.4
    upper = rng.random() < 0.25
    net = chem.balanced_network(rng, rng.randint(4, 9), rng.randint(2, 12), surface=surface, labels=not upper)
    names = {s["name"] for s in net["species"]}
    elements = sorted({e for s in net["species"] for e in s["comp"]} | {"H"})
    req = []
    # one element may be present only in molecules / ions (no neutral atom in the network): it is not renormalised itself, the elements
    # it shares species with still are
    skip = None
    cand = [e for e in elements if e != "H" and e not in names and any(e in s["comp"] and len(s["comp"]) >= 2 for s in net["species"])]
    if cand and rng.random() < 0.35:
        skip = rng.choice(cand)
    for e in elements:
        if e == skip:
            continue
        if e not in names:
            net["species"].append(chem.make_species([(e, 1)]))
            req.append(e)
    grains = rng.random() < 0.35
    spelling = None
    if upper:
        # upper-case element symbols through the Python API WITHOUT a replacement table (HE, MG, SI stay as they are): their mass numbers are
        # not tabulated, the renormalisation falls back to unit weights and must stay finite and exact
        un = chem.upper_variant(net)
        if un is not None:
            inv = {v: k for k, v in chem.UPPER_REPLACEMENT.items()}
            for sp_ in un["species"]:
                sp_["comp"] = {inv.get(e, e).upper(): c for e, c in sp_["comp"].items()}
                if sp_["electron"]:
                    sp_["alias"] = "EM"
            net = un
            req = [inv.get(e, e).upper() for e in req]
            skip = inv.get(skip, skip).upper() if skip else skip
            spelling = "upper_noreplace"
            grains = False
    case = {"net": net, "spelling": spelling, "required_atoms": req, "grains": grains, "element_without_atom": skip, "alphas": chem.distinct_alphas(rng, len(net["reactions"]) + 2), "entry": "api"}
    nsp = len(net["species"]) + (3 if grains else 0)
    pts = []
    for i in range(8):
        scale = 10 ** rng.uniform(-15, 15)
        pts.append({"y": [scale * 10 ** rng.uniform(-3, 3) for _ in range(nsp)], "yref": [10 ** rng.uniform(-3, 3) for _ in range(nsp)],
                    "mode": ["opt1", "opt0", "identity", "opt1", "opt0", "identity0", "opt1", "opt0"][i % 8], "eref": [10 ** rng.uniform(-4, 0) for _ in range(len(elements) + 1)]})
    case["points"] = pts
    return case


def make_incremental_case(rng):
    """A network grown on one object: the first reactions, the element list read once (as any report does), then a file of further reactions that
    bring a new element with its atom.  The renormalisation generated afterwards covers the new element like any other."""
    M = chem.make_species
    new_el = rng.choice(["O", "N", "S"])
    sp = [M([("H", 1)]), M([("H", 2)]), M([("C", 1)]), M([("C", 1), ("H", 1)]), M([(new_el, 1)]), M([("C", 1), (new_el, 1)]), M([(new_el, 1), ("H", 1)])]
    n = [x["name"] for x in sp]
    reacs = [{"reactants": [n[2], n[0]], "products": [n[3]]}, {"reactants": [n[3], n[0]], "products": [n[2], n[1]]}, {"reactants": [n[0], n[0]], "products": [n[1]]},
             {"reactants": [n[2], n[4]], "products": [n[5]]}, {"reactants": [n[4], n[1]], "products": [n[6], n[0]]}, {"reactants": [n[6], n[2]], "products": [n[5], n[0]]}]
    for i, r in enumerate(reacs):
        r.update(idx=i + 1, pseudo=None)
    net = {"species": sp, "reactions": reacs}
    case = {"net": net, "spelling": None, "required_atoms": [], "grains": False, "element_without_atom": None, "alphas": chem.distinct_alphas(rng, len(reacs) + 2), "entry": "api",
            "incremental": 3}
    nsp, ne = len(sp), 3
    pts = []
    for i in range(8):
        scale = 10 ** rng.uniform(-15, 15)
        pts.append({"y": [scale * 10 ** rng.uniform(-3, 3) for _ in range(nsp)], "yref": [10 ** rng.uniform(-3, 3) for _ in range(nsp)],
                    "mode": ["opt1", "opt0", "identity", "opt1", "opt0", "identity0", "opt1", "opt0"][i % 8], "eref": [10 ** rng.uniform(-4, 0) for _ in range(ne + 1)]})
    case["points"] = pts
    return case


def gen_cases(tier):
    rng = common.rng_for(ID)
    n = 30 if tier == "quick" else 400
    cases = [make_case(random.Random(rng.getrandbits(64))) for _ in range(n)]
    for _ in range(2 if tier == "quick" else 20):
        cases.append(make_incremental_case(random.Random(rng.getrandbits(64))))
    return cases


def build_net(case, work):
    from naunet.network import Network
    from naunet.reactions.reaction import Reaction
    from naunet.reactiontype import ReactionType as RT
    from naunet.species import Species
    Species.reset()
    kw = {}
    if case.get("spelling") == "upper_noreplace":
        Species.set_known_elements(list(chem.UPPER_ELEMENTS))
        Species.set_known_pseudoelements(list(chem.UPPER_PSEUDO))
        kw = dict(elements=list(chem.UPPER_ELEMENTS), pseudo_elements=list(chem.UPPER_PSEUDO))
    S.provide_binding_energies(case["net"])
    rl = []
    for r, a in zip(case["net"]["reactions"], case["alphas"]):
        rl.append(Reaction(list(r["reactants"]), list(r["products"]), alpha=a, reaction_type=RT.GAS_TWOBODY, idxfromfile=r["idx"]))
    if case["grains"]:
        rl.append(Reaction(["H+", "GRAIN-"], ["H", "GRAIN0"], alpha=1.0, reaction_type=RT.GAS_TWOBODY))
        rl.append(Reaction(["e-", "GRAIN0"], ["GRAIN-"], alpha=1.0, reaction_type=RT.GAS_TWOBODY))
        rl.append(Reaction(["H+", "GRAIN0"], ["H", "GRAIN+"], alpha=1.0, reaction_type=RT.GAS_TWOBODY))
    if case.get("incremental"):
        from ..gen import encode
        k = case["incremental"]
        net = Network(rl[:k], **kw)
        _ = [e.name for e in net.elements]                      # the element list is read once before the network grows
        f = work / "more.naunet"
        f.write_text("\n".join(encode.naunet_line(dict(r, alpha=a, beta=0.0, gamma=0.0, tmin=-1.0, tmax=-1.0, type=100))
                                for r, a in list(zip(case["net"]["reactions"], case["alphas"]))[k:]) + "\n")
        net.add_reaction_from_file(str(f), "naunet")
        return net
    return Network(rl, required_species=case["required_atoms"] or None, **kw)


def run_case(case, ctx):
    obs, viol = Counter(), []
    work = ctx.fresh_dir("n")
    species = list(case["net"]["species"])
    if case["grains"]:
        have = {s["name"] for s in species}
        for nm, q in (("H+", 1), ("e-", -1)):
            if nm not in have:
                species.append(chem.make_species([("H", 1)], charge=1) if nm == "H+" else chem.make_species([], electron="e-"))
        for nm, alias, q in (("GRAIN0", "GRAIN0I", 0), ("GRAIN-", "GRAINM", -1), ("GRAIN+", "GRAINII", 1)):
            species.append({"name": nm, "comp": {"GRAIN": 1}, "charge": q, "surface": False, "label": "", "electron": False, "alias": alias, "massnumber": 0})
    tags = set()
    if case["grains"]:
        tags.add("grain_species")
    if case.get("element_without_atom"):
        tags.add("element_without_atom")
    if case.get("spelling"):
        tags.add("upper_case_without_replacement")
    if case.get("incremental"):
        tags.add("grown_after_element_list_was_read")
    if any(s["surface"] for s in species):
        tags.add("ice_species")
    if any("D" in s["comp"] for s in species):
        tags.add("deuterated")
    for t in tags:
        obs["tag_" + t] += 1
    sample = {"species": [s["name"] for s in species][:14], "grains": case["grains"], "tags": sorted(tags)}
    try:
        net = build_net(case, work)
    except Exception as e:
        return {"status": "violated", "violations": [violation("generator_raised", f"{type(e).__name__}: {e}", trace=traceback.format_exc()[-800:])], "obs": dict(obs)}
    for be in ("dense", "odeint"):
        try:
            proj = S.render(net, be, work / be)
            b = lab.build_cvode(proj, work / f"b_{be}", be, ctx.cache) if be == "dense" else lab.build_odeint(proj, work / f"b_{be}", ctx.cache)
        except lab.BuildError as e:
            viol.append(violation("emitted_code_does_not_compile", f"{be}: {e.unit}: {'; '.join(e.diagnostics()[:2])}"))
            continue
        except Exception as e:
            viol.append(violation("generator_raised", f"{be}: {type(e).__name__}: {e}", trace=traceback.format_exc()[-800:]))
            continue
        mac = lab.parse_macros(proj)
        n, ne = mac["NSPECIES"], mac["NELEMENTS"]
        # every element that has its atomic species in the network is renormalised (independent of how the network object was built up)
        want_el = {next(iter(sp["comp"])) for sp in species if not sp["electron"] and not sp["surface"] and sp["charge"] == 0 and not sp["label"]
                   and len(sp["comp"]) == 1 and sum(sp["comp"].values()) == 1}
        obs["element_sets_checked"] += 1
        if set(mac["ELEM"]) != want_el:
            viol.append(violation("renormalised_elements_differ", f"{be}: the generated code renormalises {sorted(mac['ELEM'])}, the network has atomic species of "
                                  f"{sorted(want_el)}"))
            continue
        if "H" not in mac["ELEM"]:
            return {"status": "inconclusive", "violations": [], "obs": dict(obs), "lost": "no H element"}
        idx = {k: int(v) for k, v in mac["IDX"].items() if str(v).isdigit()}
        eslot = [idx[k] for k in ("eM", "EM") if k in idx]
        elem_names = sorted(mac["ELEM"], key=lambda k: int(mac["ELEM"][k]))
        hpos = int(mac["ELEM"]["H"])
        cmds = []
        plan = []
        for pt in case["points"]:
            y = pt["y"][:n] + [1.0] * max(0, n - len(pt["y"]))
            cmds.append("y " + " ".join(lab.fmt(v) for v in y))
            cmds.append("elem")
            if pt["mode"] == "opt0":
                ref = pt["eref"][:ne] + [1e-3] * max(0, ne - len(pt["eref"]))
                cmds.append("renorm 0 " + " ".join(lab.fmt(v) for v in ref))
                want = [r / ref[hpos] for r in ref]
                obs["opt0_references"] += 1
            elif pt["mode"] == "identity0":
                # reference = 3.7 x the vector's own element totals: the ratios already match, so nothing may change
                cmds.append("@IDENTITY0@")
                want = None
            elif pt["mode"] == "identity":
                cmds.append("renorm 1 " + " ".join(lab.fmt(v) for v in y))
                want = None
            else:
                yr = pt["yref"][:n] + [1.0] * max(0, n - len(pt["yref"]))
                cmds.append("y " + " ".join(lab.fmt(v) for v in yr))
                cmds.append("elem")
                cmds.append("y " + " ".join(lab.fmt(v) for v in y))
                cmds.append("renorm 1 " + " ".join(lab.fmt(v) for v in yr))
                want = "from_elem"
                obs["opt1_references"] += 1
            plan.append((pt, y, want))
        if "@IDENTITY0@" in cmds:
            pre = []
            for pt, y, want in plan:
                if pt["mode"] == "identity0":
                    pre += ["y " + " ".join(lab.fmt(v) for v in y), "elem"]
            r0 = lab.run_driver(b["exe"], pre, work / f"b_{be}")
            totals = [e["elem"] for e in r0.by_ev("elem")]
            out, ti = [], 0
            for c in cmds:
                if c == "@IDENTITY0@":
                    out.append("renorm 0 " + " ".join(lab.fmt(3.7 * v) for v in totals[ti]))
                    ti += 1
                else:
                    out.append(c)
            cmds = out
        rr = lab.run_driver(b["exe"], cmds, work / f"b_{be}")
        fdz = list(rr.fdz)
        if fdz:
            obs["float_divide_by_zero_reports"] += len(fdz)
        if rr.crashed() and not rr.by_ev("renorm"):
            viol.append(violation("sanitizer_report_or_crash", f"{be}: {(rr.sanitizer_reports or ['crash'])[0][:300]}", stderr=rr.stderr[-800:]))
            continue
        obs["backend_" + be] += 1
        evs = [e for e in rr.events if e["ev"] in ("elem", "renorm")]
        # conditioning of the element coupling matrix, rebuilt from the generator's compositions
        import numpy as np
        comp_by_slot = {}
        for sp in species:
            a = ("eM" if "eM" in idx else "EM") if sp["electron"] else sp["alias"]
            if a in idx and not sp["electron"]:
                comp_by_slot[idx[a]] = sp
        def noise_floor(y, ref):
            """Numerical noise floor of the prescribed algorithm for this (y, ref): the element coupling system is rebuilt
            from the generator's compositions and solved exactly (rationals) and in float64; the difference bounds what any
            double-precision implementation can deliver.  Returns (per-element relative tolerance, identity tolerance)."""
            from fractions import Fraction
            try:
                ne_ = len(elem_names)
                hn = sum(sp["comp"].get("H", 0) * y[s] for s, sp in comp_by_slot.items())
                M = np.zeros((ne_, ne_))
                for i, ei in enumerate(elem_names):
                    for j, ej in enumerate(elem_names):
                        for s, sp in comp_by_slot.items():
                            ci, cj = sp["comp"].get(ei, 0), sp["comp"].get(ej, 0)
                            wj = chem.MASSNUM.get(ej, 0) or 1.0
                            # weight of the renormalised part of the species (elements with an atomic species)
                            ws = sum(sp["comp"].get(en, 0) * (chem.MASSNUM.get(en, 0) or 1.0) for en in elem_names) or 1.0
                            if ci and cj:
                                M[i, j] += ci * cj * wj * y[s] / ws / hn
                r64 = np.linalg.solve(M, np.array(ref, dtype=float))
                # exact solve by fraction Gaussian elimination
                A = [[Fraction(float(M[i, j])) for j in range(ne_)] + [Fraction(float(ref[i]))] for i in range(ne_)]
                for c in range(ne_):
                    p = next(r_ for r_ in range(c, ne_) if A[r_][c] != 0)
                    A[c], A[p] = A[p], A[c]
                    for r_ in range(ne_):
                        if r_ != c and A[r_][c] != 0:
                            f = A[r_][c] / A[c][c]
                            A[r_] = [a - f * b for a, b in zip(A[r_], A[c])]
                rex = [float(A[i][ne_] / A[i][i]) for i in range(ne_)]
                dr = [abs(a - b) for a, b in zip(r64, rex)]
                tol_el = []
                for i in range(ne_):
                    num = sum(abs(M[i, j]) * dr[j] for j in range(ne_))
                    tol_el.append(1e-8 + 1e3 * num / max(abs(ref[i]), 1e-300))
                tol_id = 1e-8 + 1e3 * max(d / max(abs(x), 1e-300) for d, x in zip(dr, rex))
                return tol_el, tol_id
            except Exception:
                return None, None
        pos = 0
        for pt, y, want in plan:
            e_before = evs[pos]; pos += 1
            if want == "from_elem":
                e_ref = evs[pos]; pos += 1
                want = [v / e_ref["hnuclei"] for v in e_ref["elem"]]
            rn = evs[pos]; pos += 1
            obs["renorm_calls_checked"] += 1
            ab = rn["ab"]
            ref_used = want if want is not None else None
            if want is None:
                tots = [sum(sp["comp"].get(e, 0) * y[s] for s, sp in comp_by_slot.items()) for e in elem_names]
                ref_used = [t / tots[hpos] for t in tots]
            tol_el, tol_id = noise_floor(y, ref_used)
            if tol_el is None or max(tol_el) > 1e-3 or tol_id > 1e-3:
                obs["ill_conditioned_skipped"] += 1
                continue
            w = {}
            if case["grains"] and (any(isinstance(v, float) and math.isnan(v) for v in ab) or fdz):
                w["mechanism"] = "C16/grain-mass-number-zero-gives-nan"
            if rn["ret"] != 0:
                viol.append(violation("renorm_failed", f"{be}: Renorm returned {rn['ret']}", **w))
                continue
            if any(not math.isfinite(v) for v in ab):
                viol.append(violation("non_finite_abundance", f"{be}: renormalised abundances contain {[v for v in ab if not math.isfinite(v)][:3]} "
                                      f"(grains={case['grains']})", **w))
                continue
            for s in eslot:
                obs["electron_checked"] += 1
                if ab[s] != y[s]:
                    viol.append(violation("electron_changed", f"{be}: electron abundance {y[s]!r} -> {ab[s]!r}"))
            if want is None:
                obs["identity_checked"] += 1
                bad = [(i, y[i], ab[i]) for i in range(n) if not close(ab[i], y[i], None, rel=tol_id)]
                if bad:
                    viol.append(violation("not_identity", f"{be}: ratios already matched but slot {bad[0][0]} changed {bad[0][1]!r} -> {bad[0][2]!r}"))
                continue
            # second Renorm call against the same stored reference (another abundance vector)
            if "elem2" in rn and rn.get("ret2") == 0 and all(math.isfinite(v) for v in rn["ab2"]):
                obs["second_renorm_calls_checked"] += 1
                y2 = [y[i] * (1.0 + 0.37 * ((i * 7) % 5)) for i in range(n)]
                tol2, _ = noise_floor(y2, want)
                if tol2 is not None and max(tol2) < 1e-3:
                    for ei, (got, exp) in enumerate(zip([v / rn["hnuclei2"] for v in rn["elem2"]], want)):
                        if not close(got, exp, None, rel=tol2[ei]):
                            viol.append(violation("ratio_not_restored_on_second_call", f"{be}: element {elem_names[ei]}: ratio {got!r} after a second Renorm with the "
                                                  f"same stored reference, reference {exp!r}", element=elem_names[ei]))
                            break
            ratios = [v / rn["hnuclei"] for v in rn["elem"]]
            for ei, (got, exp) in enumerate(zip(ratios, want)):
                obs["ratios_checked"] += 1
                if not close(got, exp, None, rel=tol_el[ei]):
                    viol.append(violation("ratio_not_restored", f"{be}: element {elem_names[ei]}: ratio {got!r} after Renorm, reference {exp!r} (mode {pt['mode']})",
                                          element=elem_names[ei], **w))
                    break
        if fdz and not any(v["kind"] in ("non_finite_abundance", "ratio_not_restored") for v in viol):
            w = {"mechanism": "C16/grain-mass-number-zero-gives-nan"} if case["grains"] else {}
            viol.append(violation("float_divide_by_zero", f"{be}: {fdz[0][:200]}", **w))
    nel = len({e for s in species for e in s["comp"]})
    return {"status": "violated" if viol else "held", "violations": viol[:8], "obs": dict(obs), "nontrivial": nel >= 3, "sample": sample}
