"""C20 - project configuration round trip: what is configured is what is rendered.

Deciding step: generated option strings are handed to the real `naunet init ... --render` in a
fresh interpreter; (a) the written naunet_config.toml is parsed and compared key by key with the
requested description, (b) the sources rendered through the command line are compared (sha256
per file, project name / version / date masked) with the sources rendered by the equivalent
`Network(...).to_code()` call in another fresh interpreter.  Bundled examples go through
`naunet example`.
"""
from __future__ import annotations

import json
import os
import random
import re
import subprocess
from collections import Counter
from pathlib import Path

from .. import clihelp, common
from ..common import violation
from ..gen import chem, encode

ID = "C20"
LEVEL = "exploration"
BATCH = 1
TIMEOUT = 900
REQUIRED_OBS = ["toml_keys_compared", "cli_vs_api_trees_compared", "cli_after_foreign_configuration", "files_compared", "solver_dense", "solver_sparse", "solver_rosenbrock4", "solver_cusparse",
                "with_replacement", "with_binding_or_yield", "with_modifiers", "with_allowed_species", "with_cooling", "with_bulk_prefix", "examples_rendered", "example_command_lines_checked"]
RULE = ("option sets for `naunet init`: element / pseudo-element lists (default, upper-case with replacement table), surface and bulk prefixes, "
        "allowed and extra species, binding-energy and yield tables, network files of every format, grain model, cooling lists, shielding "
        "tables, rate and ODE modifiers, every solver/method/device; list values with irregular spacing, trailing separators and empty "
        "values; option strings the command rejects are counted as refused; bundled examples (minimal, primordial; thorough: all "
        "renderable) through `naunet example`; non-trivial = >= 3 non-default option groups; distinct by sha1 of the option set")
ASSUMPTIONS = ["the API equivalent of a configuration follows the steps of `naunet render` (replacement table, element lists, binding/yield tables, Network(...), "
               "to_code(...)) in a fresh interpreter", "only include/, src/, python/ and CMakeLists.txt are compared; name, version and date are masked"]

UPPER_EL = ["E", "H", "D", "HE", "C", "N", "O", "MG", "SI", "S", "CL"]
UPPER_PS = ["CR", "CRP", "PHOTON", "CRPHOT"]
UPPER_RP = {"E": "e", "HE": "He", "MG": "Mg", "SI": "Si", "CL": "Cl"}
DEF_PS = ["CR", "CRP", "XRAY", "Photon", "PHOTON", "CRPHOT", "X", "M", "p", "o", "m", "c-", "l-", "\\*", "g"]


def messy(rng, items, sep=","):
    """join a list the way users type it: irregular blanks, optional trailing separator"""
    parts = [(" " * rng.randint(0, 2)) + x + (" " * rng.randint(0, 2)) for x in items]
    s = sep.join(parts)
    if items and rng.random() < 0.3:
        s += sep
    return s


def make_case(rng, i):
    d = {"species_kwargs": {"grain_symbol": "GRAIN", "surface_prefix": "#", "bulk_prefix": "@"}}
    style = ["kida", "umist", "uclchem_upper", "leeds_grain", "krome", "naunet_ice"][i % 6]
    lines = {}
    if style in ("kida", "umist"):
        fmt = style
        rs = [{"reactants": ["H", "H"], "products": ["H2"], "idx": 1, "alpha": 1.2e-17, "beta": 0.5, "gamma": 0.0}, {"reactants": ["H2", "He+"], "products": ["He", "H", "H+"], "idx": 2, "alpha": 3.7e-14, "beta": 0.0, "gamma": 35.0},
              {"reactants": ["C", "O"], "products": ["CO"], "idx": 3, "alpha": 4.7e-19, "beta": 1.5, "gamma": -50.5}, {"reactants": ["CO", "He+"], "products": ["C+", "O", "He"], "idx": 4, "alpha": 1.6e-9, "beta": 0.0, "gamma": 0.0},
              {"reactants": ["H+", "e-"], "products": ["H"], "idx": 5, "alpha": 3.5e-12, "beta": -0.75, "gamma": 0.0}, {"reactants": ["He+", "e-"], "products": ["He"], "idx": 6, "alpha": 5.4e-12, "beta": -0.5, "gamma": 0.0}]
        for r in rs:
            r.update(tmin=10.0, tmax=9999.0, formula=3, code="NN", pseudo=None)
        lines[f"net.{fmt}"] = [encode.LINE[fmt](r) for r in rs]
        d.update(files=[f"net.{fmt}"], formats=[fmt], elements=list(chem.DEFAULT_ELEMENTS), pseudo_elements=list(DEF_PS))
        if rng.random() < 0.35:
            # the network in two (or three) files of the SAME format: the formats list runs parallel to the files list, repeats included
            k = rng.randint(1, len(rs) - 1)
            parts = [rs[:k], rs[k:]] if rng.random() < 0.7 or len(rs) < 4 else [rs[:1], rs[1:k + 1] or rs[1:2], rs[k + 1:] or rs[-1:]]
            lines.clear()
            for j, part in enumerate(parts):
                lines[f"gas{j + 1}.{fmt}"] = [encode.LINE[fmt](r) for r in part]
            d.update(files=[f"gas{j + 1}.{fmt}" for j in range(len(parts))], formats=[fmt] * len(parts))
            d["repeated_format"] = True
        if rng.random() < 0.3:
            # an explicitly EMPTY list for an option whose default is not empty (the bundled minimal example does this)
            d["pseudo_elements"] = []
            d["explicit_empty"] = True
        if rng.random() < 0.6:
            d["cooling"] = rng.sample(["CIC_HI", "RC_HII", "CIC_HeI", "RC_HeI", "CEC_HI", "CEC_HeII"], rng.randint(1, 3))
            d["required"] = ["He++"] if rng.random() < 0.5 else []
        if rng.random() < 0.5:
            d["allowed"] = ["H", "H2", "H+", "e-", "He", "He+", "He++"] + (["C", "O", "CO", "C+"] if rng.random() < 0.5 else [])
        if rng.random() < 0.6:
            d["rate_modifier"] = {str(rng.choice([1, 2, 5])): rng.choice(["1.5e-9", "2.0*zeta", "nH*1e-20 + 1e-12"])}
            d["ode_modifier"] = {"H2": {"factors": [rng.choice(["-1.0e-3", "-zeta + 1e-18", "2.5e-4*nH"])], "reactants": [rng.choice([["H"], ["H", "H"], ["H2", "e-"]])]}}
            if rng.random() < 0.6:
                # several terms for one species and terms for further species (the bundled cloud example's H2 / H pair)
                d["ode_modifier"]["H2"]["factors"].append(rng.choice(["-3.0e-11", "-nH*1e-15"]))
                d["ode_modifier"]["H2"]["reactants"].append(["H2"])
                d["ode_modifier"]["H"] = {"factors": [rng.choice(["2.0e-3", "6.0e-11 + zeta"])], "reactants": [rng.choice([["H2"], ["H", "H2"]])]}
                if rng.random() < 0.5:
                    d["ode_modifier"]["He+"] = {"factors": ["-1.0e-9*nH"], "reactants": [["He+", "e-"]]}
            d["ode_modifier_repeated_option"] = rng.random() < 0.5
    elif style == "uclchem_upper":
        lines["net.ucl"] = ["H,HE+,NAN,HE,H+,NAN,NAN,1.2e-15,0.25,0.0,10,41000", "MG,H+,NAN,MG+,H,NAN,NAN,1.1e-9,0.0,0.0,10,41000", "SIO,HE+,NAN,SI+,O,HE,NAN,8.6e-10,-0.5,0.0,10,41000",
                            "H2,CRP,NAN,H,H,NAN,NAN,1.3e-18,0.0,0.0,10,41000", "HCL,E-,NAN,H,CL,NAN,NAN,3.0e-7,-0.5,0.0,10,41000", "H,H,NAN,H2,NAN,NAN,NAN,1e-17,0.5,0.0,10,41000",
                            "CO,FREEZE,NAN,#CO,NAN,NAN,NAN,1.0,0.0,0.0,0,0", "#CO,DESCR,NAN,CO,NAN,NAN,NAN,1.0,0.0,0.0,0,0", "#CO,DEUVCR,NAN,CO,NAN,NAN,NAN,1.0,0.0,0.0,0,0",
                            "C,O,NAN,CO,NAN,NAN,NAN,1e-17,0.0,0.0,10,41000",
                            "SIO,FREEZE,NAN,#SIO,NAN,NAN,NAN,1.0,0.0,0.0,0,0", "#SIO,DESCR,NAN,SIO,NAN,NAN,NAN,1.0,0.0,0.0,0,0", "#SIO,DEUVCR,NAN,SIO,NAN,NAN,NAN,1.0,0.0,0.0,0,0",
                            "MG,FREEZE,NAN,#MG,NAN,NAN,NAN,1.0,0.0,0.0,0,0", "#MG,DEUVCR,NAN,MG,NAN,NAN,NAN,1.0,0.0,0.0,0,0"]
        d.update(files=["net.ucl"], formats=["uclchem"], elements=list(UPPER_EL), pseudo_elements=list(UPPER_PS), replacement=dict(UPPER_RP), grain_model=rng.choice(["rr07", "rr07x"]))
        # ice species whose names contain replaced element symbols (#SIO -> #SiO, #MG -> #Mg): table keys go through the replacement too
        d["binding"] = {"#SIO": rng.choice([3500.0, 4321.0]), "#MG": rng.choice([5300.0, 4321.0])}
        if rng.random() < 0.6:
            d["binding"]["#CO"] = rng.choice([1150.0, 1300.5, 855.0])
        if rng.random() < 0.7:
            d["yield"] = {"#CO": rng.choice([0.1, 2.7e-3]), "#MG": rng.choice([3.0e-3, 0.25])}
        if rng.random() < 0.5:
            d["shielding"] = {"CO": "VB88Table"}
    elif style == "leeds_grain":
        def L(i_, re_, pr, t, a=1.0, ps=None):
            return encode.leeds_line({"reactants": re_, "products": pr, "idx": i_, "alpha": a, "beta": 0.0, "gamma": 0.0, "tmin": 0, "tmax": 0, "rtype": t, "pseudo": ps})
        lines["net.leeds"] = [L(1, ["H", "H"], ["H2"], 1, 1e-17), L(2, ["CO"], ["GCO"], 7), L(3, ["GCO"], ["CO"], 8), L(4, ["H2O"], ["GH2O"], 7), L(5, ["GH2O"], ["H2O"], 10, 1.0, "PHOTON"),
                              L(6, ["GCO"], ["CO"], 9, 1.0, "CRP"), L(7, ["CO"], ["C", "O"], 4, 2e-10, "PHOTON"), L(8, ["H2"], ["H", "H"], 4, 3e-11, "PHOTON")]
        d.update(files=["net.leeds"], formats=["leeds"], elements=list(chem.DEFAULT_ELEMENTS), pseudo_elements=list(DEF_PS), grain_model=rng.choice(["hh93", "hh93i"]))
        d["species_kwargs"]["surface_prefix"] = "G"
        if rng.random() < 0.7:
            d["binding"] = {"GH2O": rng.choice([4800.0, 5770.0])}
        if rng.random() < 0.6:
            d["shielding"] = {"H2": "L96Table", "CO": "V09Table"}
        if rng.random() < 0.5:
            d["yield"] = {"GH2O": 1.3e-3}
    elif style == "krome":
        lines["net.krome"] = ["@common:user_crate,user_Av", "@var:uscl = 1.0e17*user_crate", "@format:idx,R,R,P,P,Tmin,Tmax,rate", "1,H,H,H2,,NONE,NONE,1.0d-17*sqrt(Tgas)",
                              "2,H2,e-,H,H-,10,1.0d4,2.3d-9*(T32)**(-0.5)*uscl", "3,H+,e-,H,,NONE,.LE.5.5e3,3.92d-13*invTe**0.6353d0", "4,H+,e-,H,,>5.5e3,NONE,3.0d-12*invTe**0.5"]
        d.update(files=["net.krome"], formats=["krome"], elements=["e", "H", "D", "He"], pseudo_elements=["Photon"])
        if rng.random() < 0.5:
            d["cooling"] = ["CIC_HI", "RC_HII"]
    else:
        rs = [{"reactants": ["CO"], "products": ["#CO"], "idx": 1, "type": 100}, {"reactants": ["#CO", "H"], "products": ["CO", "H"], "idx": 2, "type": 100},
              {"reactants": ["H", "H"], "products": ["H2"], "idx": 3, "type": 100}, {"reactants": ["H2", "CR"], "products": ["H", "H"], "idx": 4, "type": 101}]
        for r in rs:
            r.update(alpha=round(rng.uniform(0.1, 9), 3) * 1e-10, beta=0.0, gamma=0.0, tmin=-1.0, tmax=-1.0, pseudo=None)
            if r["type"] == 101:
                r["reactants"], r["pseudo"] = ["H2"], "CR"
        lines["net.naunet"] = [encode.naunet_line(r) for r in rs]
        d.update(files=["net.naunet"], formats=["naunet"], elements=list(chem.DEFAULT_ELEMENTS), pseudo_elements=list(DEF_PS))
        d["binding"] = {"#CO": 1234.5}
        if rng.random() < 0.5:
            d["required"] = ["He", "O"]
    if rng.random() < 0.35:
        d["species_kwargs"]["bulk_prefix"] = rng.choice(["B", "%"])
    d["solver"], d["method"], d["device"] = [("cvode", "dense", "cpu"), ("cvode", "sparse", "cpu"), ("odeint", "rosenbrock4", "cpu"), ("cvode", "cusparse", "gpu")][(i // 6) % 4]
    # ---- the option strings a user would type for this description
    o = {"elements": messy(rng, d["elements"]), "pseudo-elements": messy(rng, d["pseudo_elements"]),
         "element-replacement": messy(rng, [f"{k}:{v}" for k, v in (d.get("replacement") or {}).items()]),
         "surface-prefix": d["species_kwargs"]["surface_prefix"], "bulk-prefix": d["species_kwargs"]["bulk_prefix"],
         "allowed-species": messy(rng, d.get("allowed") or []), "extra-species": messy(rng, d.get("required") or []),
         "binding": ",".join(f"{k}={v}" for k, v in (d.get("binding") or {}).items()), "yield": ",".join(f"{k}={v}" for k, v in (d.get("yield") or {}).items()),
         "grain-model": d.get("grain_model", ""), "network-files": messy(rng, d["files"]), "file-formats": messy(rng, d["formats"]),
         "heating": "", "cooling": messy(rng, d.get("cooling") or []), "shielding": messy(rng, [f"{k}:{v}" for k, v in (d.get("shielding") or {}).items()]),
         "solver": d["solver"], "device": d["device"], "method": d["method"]}
    multi = {}
    if d.get("rate_modifier"):
        multi["rate-modifier"] = [", ".join(f"{k}: {v}" for k, v in d["rate_modifier"].items())]
    if d.get("ode_modifier"):
        terms = [f"{sp}:{f},[{' '.join(dep)}]" for sp, m in d["ode_modifier"].items() for f, dep in zip(m["factors"], m["reactants"])]
        multi["ode-modifier"] = terms if d.get("ode_modifier_repeated_option") else [";".join(terms)]
    return {"kind": "options", "desc": d, "lines": lines, "options": o, "multi": multi, "style": style}


def gen_cases(tier):
    rng = common.rng_for(ID)
    n = 48 if tier == "quick" else 480
    cases = [make_case(random.Random(rng.getrandbits(64)), i) for i in range(n)]
    # probes for values that contain the substring "null" (the command treats the bare word null as "empty")
    c = make_case(random.Random(rng.getrandbits(64)), 0)
    while c["desc"].get("repeated_format"):
        c = make_case(random.Random(rng.getrandbits(64)), 0)
    c["lines"] = {"nullmodel.kida": c["lines"]["net.kida"]}
    c["desc"]["files"] = ["nullmodel.kida"]
    c["options"]["network-files"] = "nullmodel.kida"
    c["probe"] = "null_substring"
    cases.append(c)
    ex = [4, 8] if tier == "quick" else [0, 1, 3, 4, 5, 7, 8, 9, 11, 12, 15, 16, 17, 18]
    for sel in ex:
        cases.append({"kind": "example", "select": sel})
    for sel in range(22):
        if tier == "thorough" or sel % 3 == 1 or sel >= 19:
            cases.append({"kind": "example_dry", "select": sel})
    return cases


def child(job, work, tag):
    jf = work / f"{tag}.json"
    jf.write_text(json.dumps(job))
    env = dict(os.environ, PYTHONHASHSEED="0", TQDM_DISABLE="1")
    try:
        # no terminal: a command that starts asking questions gets EOF (and falls back to whatever it falls back to) instead of blocking
        p = subprocess.run([common.PY, "-m", "verif.props.c20_child", str(jf)], capture_output=True, text=True, timeout=600, env=env, cwd=str(common.ROOT),
                           stdin=subprocess.DEVNULL)
    except subprocess.TimeoutExpired:
        return {"error": "timeout", "harness": True}
    for line in p.stdout.splitlines()[::-1]:
        if line.startswith("{"):
            return json.loads(line)
    return {"error": "child died: " + p.stderr[-300:], "harness": True}


EXAMPLES = ["empty/dense", "empty/sparse", "empty/cusparse", "empty/rosenbrock4", "minimal/dense", "minimal/sparse", "minimal/cusparse", "minimal/rosenbrock4",
            "primordial/dense", "primordial/sparse", "primordial/cusparse", "primordial/rosenbrock4", "deuterium/dense", "deuterium/sparse", "deuterium/cusparse",
            "deuterium/rosenbrock4", "cloud/dense", "cloud/sparse", "cloud/rosenbrock4"]


ALL_EXAMPLES = EXAMPLES + ["ism/dense", "ism/sparse", "ism/cusparse"]


def run_example_dry(case, ctx, obs, viol):
    """The option string `naunet example` hands to `naunet init` carries the example's settings unchanged (also for the ism examples,
    whose network file is not bundled and which therefore cannot be rendered here)."""
    import importlib
    work = ctx.fresh_dir("d")
    name = ALL_EXAMPLES[case["select"]]
    ex, method = name.split("/")
    r = child({"mode": "example_dry", "select": case["select"], "out": str(work / "x"), "cwd": str(work), "desc": {}}, work, "dry")
    if r.get("harness"):
        return {"example": name, "lost": r.get("error")}
    text = r.get("dry") or ""
    opts = {m.group(1): (m.group(2) if m.group(2) is not None else m.group(3)) for m in re.finditer(r"--([\w-]+)=(?:'([^']*)'|(\S*))", text)}
    if "network-files" not in opts:
        viol.append(violation("example_failed", f"naunet example --select={case['select']} --dry printed no init command: {r.get('error') or text[:200]}"))
        return {"example": name}
    obs["example_command_lines_checked"] += 1
    mod = importlib.import_module(f"naunet.examples.{ex}")
    def lst(v):
        return [x.strip() for x in v.split(",") if x.strip()]
    def kv(v, sep):
        out = {}
        for item in lst(v):
            k, _, val = item.partition(sep)
            out[k.strip()] = float(val)
        return out
    checks = [("elements", lst(opts.get("elements", "")), list(mod.elements)), ("pseudo-elements", lst(opts.get("pseudo-elements", "")), list(mod.pseudo_elements)),
              ("allowed-species", lst(opts.get("allowed-species", "")), list(mod.allowed_species)), ("extra-species", lst(opts.get("extra-species", "")), list(mod.extra_species)),
              ("network-files", lst(opts.get("network-files", "")), lst(mod.files) if isinstance(mod.files, str) else list(mod.files)),
              ("file-formats", lst(opts.get("file-formats", "")), lst(mod.formats) if isinstance(mod.formats, str) else list(mod.formats)),
              ("grain-model", opts.get("grain-model", ""), mod.grain_model), ("heating", lst(opts.get("heating", "")), list(mod.heating)),
              ("cooling", lst(opts.get("cooling", "")), list(mod.cooling)),
              ("binding", kv(opts.get("binding", ""), "="), {k: float(v) for k, v in mod.binding_energy.items()}),
              ("yield", kv(opts.get("yield", ""), "="), {k: float(v) for k, v in mod.photon_yield.items()}),
              ("method", opts.get("method"), method)]
    for key, got, want in checks:
        obs["example_options_compared"] += 1
        if got != want:
            diff = {k: (got.get(k), want.get(k)) for k in set(got) | set(want) if got.get(k) != want.get(k)} if isinstance(want, dict) else (str(got)[:100], str(want)[:100])
            viol.append(violation("example_option_differs", f"naunet example {name}: --{key} handed to init differs from the example's setting: {str(diff)[:300]}", key=key))
    return {"example": name, "dry": True}


def run_example(case, ctx, obs, viol):
    import importlib
    import tomlkit
    work = ctx.fresh_dir("e")
    name = EXAMPLES[case["select"]]
    ex, method = name.split("/")
    out = work / "proj"
    r = child({"mode": "example", "select": case["select"], "out": str(out), "cwd": str(work), "desc": {}}, work, "ex")
    if r.get("harness"):
        return {"example": name, "lost": r.get("error")}
    if r.get("error") or not r.get("digests"):
        viol.append(violation("example_failed", f"naunet example {name}: {r.get('error')}"))
        return {"example": name}
    obs["examples_rendered"] += 1
    if r.get("late_error"):
        obs["example_command_raised_after_render"] += 1      # rendering of the example's *test programs* fails (baseline test failure); outside C20
    mod = importlib.import_module(f"naunet.examples.{ex}")
    d = {"files": [str(out / mod.files)] if mod.files else [], "formats": [mod.formats] if mod.formats else [], "elements": list(mod.elements), "pseudo_elements": list(mod.pseudo_elements),
         "replacement": dict(mod.element_replacement), "allowed": list(mod.allowed_species), "required": list(mod.extra_species), "binding": dict(mod.binding_energy),
         "yield": dict(mod.photon_yield), "grain_model": mod.grain_model, "heating": list(mod.heating), "cooling": list(mod.cooling), "shielding": dict(mod.shielding),
         "rate_modifier": {str(k): v for k, v in mod.rate_modifier.items()}, "ode_modifier": dict(mod.ode_modifier),
         "species_kwargs": {"grain_symbol": mod.grain_symbol, "surface_prefix": mod.surface_prefix, "bulk_prefix": mod.bulk_prefix},
         "solver": "odeint" if method == "rosenbrock4" else "cvode", "method": method, "device": "gpu" if method == "cusparse" else "cpu"}
    toml = tomlkit.loads(r["toml"])
    ch = toml["chemistry"]
    pairs = [("elements", list(ch["element"]["elements"]), d["elements"]), ("pseudo_elements", list(ch["element"]["pseudo_elements"]), d["pseudo_elements"]),
             ("replacement", dict(ch["element"]["replacement"]), d["replacement"]), ("allowed", list(ch["species"]["allowed"]), d["allowed"]),
             ("required", list(ch["species"]["required"]), d["required"]), ("cooling", list(ch["thermal"]["cooling"]), d["cooling"]),
             ("grain_model", ch["grain"]["model"], d["grain_model"]), ("formats", list(ch["network"]["formats"]), d["formats"]),
             ("binding", {k: float(v) for k, v in ch["species"]["binding_energy"].items()}, {k: float(v) for k, v in d["binding"].items()}),
             ("shielding", dict(ch["shielding"]), d["shielding"])]
    for k, got, want in pairs:
        obs["toml_keys_compared"] += 1
        if got != want:
            viol.append(violation("config_differs_from_request", f"example {name}: [{k}] written {str(got)[:120]} requested {str(want)[:120]}", key=k))
    a = child({"mode": "api", "desc": d, "out": str(work / "api"), "cwd": str(out)}, work, "api")
    compare_trees(f"example {name}", r, a, obs, viol)
    return {"example": name}


def compare_trees(label, cli, api, obs, viol, w=None):
    if api.get("harness") or cli.get("harness"):
        return
    if api.get("error") and not cli.get("digests"):
        obs["refused_both"] += 1
        return
    if api.get("error") or not api.get("digests"):
        viol.append(violation("api_render_failed_but_cli_rendered", f"{label}: API rendering raised {api.get('error')}", **(w or {})))
        return
    if not cli.get("digests"):
        viol.append(violation("cli_render_failed_but_api_rendered", f"{label}: `naunet init --render` failed ({cli.get('error')}) although the equivalent API call renders", **(w or {})))
        return
    obs["cli_vs_api_trees_compared"] += 1
    A, B = cli["digests"], api["digests"]
    obs["files_compared"] += len(A)
    diff = sorted(k for k in set(A) | set(B) if A.get(k) != B.get(k))
    if diff:
        viol.append(violation("cli_sources_differ_from_api", f"{label}: {len(diff)} files differ between `naunet init --render` and Network(...).to_code(): {diff[:5]}", files=diff[:12], **(w or {})))


def run_case(case, ctx):
    import tomlkit
    obs, viol = Counter(), []
    if case["kind"] == "example_dry":
        smp = run_example_dry(case, ctx, obs, viol)
        return {"status": "violated" if viol else ("inconclusive" if smp.get("lost") else "held"), "violations": viol[:8], "obs": dict(obs), "nontrivial": True, "sample": smp,
                **({"lost": smp["lost"]} if smp.get("lost") else {})}
    if case["kind"] == "example":
        smp = run_example(case, ctx, obs, viol)
        if smp.get("lost"):
            return {"status": "inconclusive", "violations": [], "obs": dict(obs), "lost": smp["lost"]}
        return {"status": "violated" if viol else "held", "violations": viol[:8], "obs": dict(obs), "nontrivial": True, "sample": smp}
    work = ctx.fresh_dir("o")
    d = case["desc"]
    cli_dir, api_dir = work / "cli", work / "apiwd"
    for dd in (cli_dir, api_dir):
        dd.mkdir()
        for fn, ls in case["lines"].items():
            (dd / fn).write_text("\n".join(ls) + "\n")
    obs["solver_" + d["method"]] += 1
    groups = 0
    for key, tag in (("replacement", "with_replacement"), ("allowed", "with_allowed_species"), ("cooling", "with_cooling")):
        if d.get(key):
            obs[tag] += 1
            groups += 1
    if d.get("binding") or d.get("yield"):
        obs["with_binding_or_yield"] += 1
        groups += 1
    if d.get("rate_modifier") or d.get("ode_modifier"):
        obs["with_modifiers"] += 1
        groups += 1
    if d["species_kwargs"]["bulk_prefix"] != "@":
        obs["with_bulk_prefix"] += 1
        groups += 1
    if d.get("explicit_empty"):
        obs["with_explicitly_empty_list"] += 1
    if d.get("repeated_format"):
        obs["with_repeated_format"] += 1
    if d.get("shielding") or d.get("grain_model"):
        groups += 1
    job = {"mode": "cli", "desc": d, "options": case["options"], "multi": case["multi"], "out": str(cli_dir)}
    if sum(map(ord, json.dumps(case["options"], sort_keys=True))) % 2 == 0:
        # seed C20-h: a configuration file is a function of its own options, not of what the process wrote before - the same interpreter
        # first writes a foreign project whose every table (shielding, modifiers, binding, yield, cooling, prefixes) is filled
        pre = dict(case["options"])
        pre.update({"shielding": "H2:L96Table, CO:V09Table, N2:L13Table", "binding": "H2O=5773.0,CO=1150.0", "yield": "H2O=1e-3,CO=2.7e-3",
                    "cooling": "CIC_HI", "allowed-species": "", "extra-species": "He,O", "grain-model": "", "surface-prefix": "J", "bulk-prefix": "K",
                    "element-replacement": "X:Y"})
        pre_dir = work / "foreign_first"
        pre_dir.mkdir(parents=True, exist_ok=True)
        job.update({"prelude_options": pre, "prelude_multi": {"rate-modifier": ["0: 7.0"], "ode-modifier": ["H:-1.0,[H]"]}, "prelude_out": str(pre_dir)})
        obs["cli_after_foreign_configuration"] += 1
    cli = child(job, work, "cli")
    if cli.get("harness"):
        return {"status": "inconclusive", "violations": [], "obs": dict(obs), "lost": cli.get("error")}
    sample = {"style": case["style"], "options": {k: v for k, v in case["options"].items() if v and k not in ("elements", "pseudo-elements")}, "multi": case["multi"]}
    wnull = {"mechanism": "C20/null-substring-stripped-from-option-values"} if case.get("probe") == "null_substring" else {}
    if not cli.get("toml"):
        obs["refused"] += 1
        return {"status": "refused", "violations": [], "obs": dict(obs), "sample": sample}
    # ---- (a) the written configuration, key by key
    t = tomlkit.loads(cli["toml"])
    ch = t["chemistry"]
    want = [("symbol.grain", ch["symbol"]["grain"], d["species_kwargs"]["grain_symbol"]), ("symbol.surface", ch["symbol"]["surface"], d["species_kwargs"]["surface_prefix"]),
            ("symbol.bulk", ch["symbol"]["bulk"], d["species_kwargs"]["bulk_prefix"]), ("element.elements", list(ch["element"]["elements"]), d["elements"]),
            ("element.pseudo_elements", list(ch["element"]["pseudo_elements"]), d["pseudo_elements"]), ("element.replacement", dict(ch["element"]["replacement"]), d.get("replacement") or {}),
            ("species.allowed", list(ch["species"]["allowed"]), d.get("allowed") or []), ("species.required", list(ch["species"]["required"]), d.get("required") or []),
            ("species.binding_energy", {k: float(v) for k, v in ch["species"]["binding_energy"].items()}, d.get("binding") or {}),
            ("species.photon_yield", {k: float(v) for k, v in ch["species"]["photon_yield"].items()}, d.get("yield") or {}),
            ("grain.model", ch["grain"]["model"], d.get("grain_model", "")), ("network.files", list(ch["network"]["files"]), d["files"]),
            ("network.formats", list(ch["network"]["formats"]), d["formats"]), ("thermal.cooling", list(ch["thermal"]["cooling"]), d.get("cooling") or []),
            ("shielding", dict(ch["shielding"]), d.get("shielding") or {}), ("rate_modifier", {str(k): str(v) for k, v in ch["rate_modifier"].items()}, d.get("rate_modifier") or {}),
            ("ode_modifier", {str(k): {"factors": [str(x).strip() for x in v["factors"]], "reactants": [list(map(str, x)) for x in v["reactants"]]} for k, v in ch["ode_modifier"].items()},
             d.get("ode_modifier") or {}),
            ("ODEsolver", (t["ODEsolver"]["solver"], t["ODEsolver"]["method"], t["ODEsolver"]["device"]), (d["solver"], d["method"], d["device"]))]
    for k, got, exp in want:
        obs["toml_keys_compared"] += 1
        if got != exp:
            w = {}
            if k == "symbol.bulk" and got == "@":
                w["mechanism"] = "C20/bulk-prefix-never-written"
            if wnull and k == "network.files":
                w = wnull
            viol.append(violation("config_differs_from_request", f"[{k}] written {str(got)[:150]!r}, requested {str(exp)[:150]!r}", key=k, **w))
    # ---- (b) CLI sources vs API sources
    api = child({"mode": "api", "desc": d, "out": str(work / "api_out"), "cwd": str(api_dir)}, work, "api")
    compare_trees(case["style"], cli, api, obs, viol, wnull if wnull and not cli.get("digests") else None)
    return {"status": "violated" if viol else "held", "violations": viol[:10], "obs": dict(obs), "nontrivial": groups >= 3, "sample": sample}
