"""C14 - network contents stay consistent under any history of edits.

Deciding step: seeded random edit histories are applied to a real `Network` whose class carries
an icontract invariant (evaluated after every public call, also inside naunet's own internal
calls); after every step an offline monitor compares reaction identity/order, species, sources,
sinks, where_species and indices with a 40-line reference model that recomputes everything from
the surviving reactions.  The same edits are driven through `naunet extend` on files.  In the
thorough tier the repository's own test-suite is additionally run with the invariant on.
"""
from __future__ import annotations

import os
import random
import subprocess
import traceback
from collections import Counter
from pathlib import Path

from .. import common
from ..common import violation
from ..gen import chem, encode

ID = "C14"
LEVEL = "exploration"
BATCH = 10
TIMEOUT = 120
USES_LAB = False
REQUIRED_OBS = ["steps_checked", "invariant_evaluations", "op_remove", "remove_indices_repeated", "op_set_allowed", "op_dedupe", "extend_runs", "op_add_file", "allowed_spelling_cases"]
RULE = ("random edit histories (add instance / add string / add from file, remove by index, index list, instance, instance "
        "list, set allowed, set required, find+remove duplicates, append depletion and desorption reactions, reindex) of length "
        "<= 14 (quick) / 120 (thorough) over alphabets of 4-8 species; plus `naunet extend` runs on generated files; "
        "non-trivial = history contains a removal or an allowed-species change; distinct by sha1 of the history")
ASSUMPTIONS = ["reaction identity is tracked by object id, independent of naunet's __eq__/__hash__",
               "remove(instance) is specified as removing every held reaction with the same reactant/product multisets, window and type"]

ALPHABETS = [
    ["H", "H2", "H+", "e-", "He", "He+", "C", "CO", "O", "#CO", "#H2O", "H2O"],
    ["C", "O", "CO", "C+", "O2", "e-", "#C", "#O", "CO2", "H"],
]


def rkey(r):
    return (tuple(sorted(r["reactants"])), tuple(sorted(r["products"])), r["tmin"], r["tmax"], r.get("type", 100))


def rand_reaction(rng, names):
    nre = rng.choice([1, 2, 2])
    npr = rng.choice([1, 1, 2, 3])
    return {"reactants": [rng.choice(names) for _ in range(nre)], "products": [rng.choice(names) for _ in range(npr)],
            "tmin": rng.choice([-1.0, -1.0, 10.0]), "tmax": rng.choice([-1.0, -1.0, 300.0]), "alpha": round(rng.uniform(0.1, 9.9), 3),
            "pseudo": None, "beta": 0.0, "gamma": 0.0, "idx": rng.randint(1, 9999), "type": 100}


def make_history(rng, length):
    names = rng.sample(rng.choice(ALPHABETS), rng.randint(4, 8))
    ops = []
    init = [rand_reaction(rng, names) for _ in range(rng.randint(0, 6))]
    allowed0 = rng.sample(names, rng.randint(2, len(names))) if rng.random() < 0.3 else []
    for _ in range(length):
        k = rng.random()
        if k < 0.22:
            dup = rng.random() < 0.4
            ops.append({"op": "add", "r": rand_reaction(rng, names), "dup_of_existing": dup, "twin": dup and rng.random() < 0.4})
        elif k < 0.30:
            ops.append({"op": "add_string", "r": rand_reaction(rng, names), "fmt": rng.choice(["naunet", "kida"])})
        elif k < 0.38:
            ops.append({"op": "add_file", "rs": [rand_reaction(rng, names) for _ in range(rng.randint(1, 4))], "fmt": rng.choice(["naunet", "kida", "umist"])})
        elif k < 0.48:
            ops.append({"op": "remove_index", "pos": rng.random()})
        elif k < 0.54:
            ops.append({"op": "remove_indices", "pos": [rng.random() for _ in range(rng.randint(1, 3))]})
        elif k < 0.62:
            ops.append({"op": "remove_instance", "pos": rng.random()})
        elif k < 0.66:
            ops.append({"op": "remove_instances", "pos": [rng.random() for _ in range(rng.randint(1, 3))]})
        elif k < 0.76:
            ops.append({"op": "set_allowed", "names": rng.sample(names, rng.randint(1, len(names))) if rng.random() < 0.8 else []})
        elif k < 0.82:
            ops.append({"op": "set_required", "names": rng.sample(names, rng.randint(0, 2))})
        elif k < 0.90:
            ops.append({"op": "dedupe", "mode": rng.choice([None, "brief", "minimal"])})   # "short" compares type *names*, which differ per reaction class: C15 owns it
        elif k < 0.95:
            ops.append({"op": "append_depletion"})
        else:
            ops.append({"op": "reindex"})
    return {"kind": "api", "names": names, "init": init, "allowed0": allowed0, "ops": ops}


def make_extend(rng):
    names = rng.sample(ALPHABETS[0], rng.randint(5, 9))
    rs = [rand_reaction(rng, names) for _ in range(rng.randint(3, 12))]
    if rng.random() < 0.6 and rs:
        rs.append(dict(rng.choice(rs)))            # planted duplicate
    if rng.random() < 0.5 and rs:
        t = dict(rng.choice(rs))                   # planted window twin: same species, another window - not a duplicate
        t["tmin"], t["tmax"] = (t["tmin"] + 7.0 if t["tmin"] > 0 else 25.0), (t["tmax"] + 50.0 if t["tmax"] > 0 else 450.0)
        rs.append(t)
    for i, r in enumerate(rs):
        r["idx"] = i + 1
    c = {"kind": "extend", "names": names, "rs": rs, "fmt": "naunet",
         "reduce": rng.sample(names, rng.randint(2, len(names))) if rng.random() < 0.5 else None,
         "remove": rng.sample(names, rng.randint(1, 2)) if rng.random() < 0.5 else None,
         "dedupe": rng.random() < 0.5, "depletion": rng.random() < 0.5, "desorption": rng.sample(["thermal", "photon", "cosmic-ray"], rng.randint(0, 2))}
    return c


def gen_cases(tier):
    rng = common.rng_for(ID)
    n = 300 if tier == "quick" else 6000
    cases = []
    for i in range(n):
        r = random.Random(rng.getrandbits(64))
        if i % 6 == 5:
            cases.append(make_extend(r))
        else:
            cases.append(make_history(r, r.randint(3, 14) if tier == "quick" else r.randint(5, 120)))
    for _ in range(24 if tier == "quick" else 600):
        cases.append(make_allowed_spelling(random.Random(rng.getrandbits(64))))
    if tier == "thorough":
        cases.append({"kind": "repo_tests"})
    return cases


# ------------------------------------------------------------------ reference model

class Model:
    def __init__(self, allowed, required):
        self.held, self.skipped = [], []       # lists of (rid, rdict)
        self.allowed, self.required = list(allowed), list(required)

    def ok(self, r):
        return (not self.allowed) or all(n in self.allowed for n in r["reactants"] + r["products"])

    def add(self, rid, r):
        (self.held if self.ok(r) else self.skipped).append((rid, r))

    def set_allowed(self, names):
        rec = self.held + self.skipped
        self.allowed = list(names)
        self.held, self.skipped = [], []
        for rid, r in rec:
            self.add(rid, r)

    def species(self):
        s = set(self.required)
        for _, r in self.held:
            s.update(r["reactants"])
            s.update(r["products"])
        return s

    def source_sink(self):
        re, pr = set(), set()
        for _, r in self.held:
            re.update(r["reactants"])
            pr.update(r["products"])
        return re - pr, pr - re


def dup_key(r, mode):
    base = (tuple(sorted(r["reactants"])), tuple(sorted(r["products"])))
    if mode in ("brief", "minimal"):
        return base
    return base + (r["tmin"], r["tmax"], r.get("type", 100))     # default and 'short' also compare window and type


def run_api(case, ctx, obs, viol):
    from naunet.network import Network
    from naunet.reactions.reaction import Reaction
    from naunet.reactiontype import ReactionType as RT
    from naunet.species import Species
    from .. import contracts
    contracts.install(record_only=True)
    Species.reset()
    objs = {}
    counter = [0]

    def mk(r):
        counter[0] += 1
        o = Reaction(list(r["reactants"]), list(r["products"]), temp_min=r["tmin"], temp_max=r["tmax"], alpha=r["alpha"],
                     reaction_type=RT(r.get("type", 100)), idxfromfile=r["idx"])
        objs[id(o)] = (counter[0], r, o)
        return o

    def compare(step, opname):
        obs["steps_checked"] += 1
        got_ids = [id(o) for o in net.reaction_list]
        exp = [rid for rid, _ in model.held]
        got = [objs[i][0] if i in objs else None for i in got_ids]
        if None in got:
            # reactions created by naunet itself from strings/files: match by content in order
            got2, pool = [], list(model.held)
            for o in net.reaction_list:
                if id(o) in objs:
                    got2.append(objs[id(o)][0])
                else:
                    k = (tuple(sorted(s.name for s in o.reactants)), tuple(sorted(s.name for s in o.products)), o.temp_min, o.temp_max,
                         int(o.reaction_type), o.alpha)
                    m = next((rid for rid, r in pool if isinstance(rid, str) and (rkey(r) + (r["alpha"],)) == k and rid not in got2), None)
                    got2.append(m)
            got = got2
        if got != exp:
            viol.append(violation("reactions_differ", f"step {step} ({opname}): network holds {got}, edits say {exp}", step=step, op=opname))
            return False
        sp = {s.name for s in net.species}
        if sp != model.species():
            extra = sorted(sp - model.species())
            viol.append(violation("species_differ", f"step {step} ({opname}): species {sorted(sp)} but reactions+required give {sorted(model.species())}",
                                  step=step, op=opname, extra=extra, missing=sorted(model.species() - sp)))
            return False
        so, si = net.find_source_sink()
        eso, esi = model.source_sink()
        if {s.name for s in so} != eso or {s.name for s in si} != esi:
            viol.append(violation("source_sink_differ", f"step {step} ({opname}): sources {sorted(s.name for s in so)}/{sorted(eso)} sinks "
                                  f"{sorted(s.name for s in si)}/{sorted(esi)}", step=step, op=opname))
            return False
        probe = rng.choice(case["names"])
        ws = net.where_species(probe)
        ews = [i for i, (_, r) in enumerate(model.held) if probe in r["reactants"] + r["products"]]
        if ws != ews:
            viol.append(violation("where_species_differ", f"step {step} ({opname}): where_species({probe}) = {ws}, expected {ews}", step=step))
            return False
        return True

    rng = random.Random(common.case_id(case))
    model = Model(case["allowed0"], [])
    init_objs = [mk(r) for r in case["init"]]
    try:
        net = Network(init_objs, allowed_species=case["allowed0"] or None)
    except Exception as e:
        viol.append(violation("api_raised", f"Network(...) raised {type(e).__name__}: {e}", trace=traceback.format_exc()[-800:]))
        return
    for o in init_objs:
        model.add(objs[id(o)][0], objs[id(o)][1])
    if not compare(0, "construct"):
        return
    work = ctx.fresh_dir("h")
    strcount = [0]
    for step, op in enumerate(case["ops"], 1):
        name = op["op"]
        obs["op_" + ("remove" if name.startswith("remove") else name)] += 1
        nb0 = len(contracts.BROKEN)
        try:
            if name == "add":
                r = op["r"]
                if op.get("dup_of_existing") and model.held:
                    r = dict(rng.choice(model.held)[1])
                    if op.get("twin"):
                        # same species as a held reaction, another temperature window: a different reaction for every edit and report
                        r["tmin"], r["tmax"] = (r["tmin"] + 7.0 if r["tmin"] > 0 else 25.0), (r["tmax"] + 50.0 if r["tmax"] > 0 else 450.0)
                        obs["window_twins_added"] += 1
                o = mk(r)
                net.add_reaction(o)
                model.add(objs[id(o)][0], r)
            elif name in ("add_string", "add_file"):
                rs = [op["r"]] if name == "add_string" else op["rs"]
                fmt = op["fmt"]
                lines = []
                for r in rs:
                    r = dict(r)
                    if fmt in ("kida",):
                        r["tmin"], r["tmax"] = float(int(r["tmin"])), float(int(r["tmax"]))
                        r["formula"] = 3
                    if fmt == "umist":
                        r["code"] = "NN"
                        r["reactants"] = r["reactants"][:2]
                        r["products"] = r["products"][:4]
                    strcount[0] += 1
                    rid = f"s{strcount[0]}"
                    lines.append((rid, r, encode.LINE[fmt](r)))
                if name == "add_string":
                    rid, r, line = lines[0]
                    net.add_reaction((line, fmt))
                    rr = dict(r)
                    if fmt in ("kida", "naunet"):
                        rr["alpha"] = float(f"{r['alpha']:10.3e}")
                    model.add(rid, rr)
                else:
                    p = work / f"add{step}.{fmt}"
                    p.write_text("\n".join(l for _, _, l in lines) + "\n")
                    net.add_reaction_from_file(str(p), fmt)
                    for rid, r, _ in lines:
                        rr = dict(r)
                        if fmt in ("kida", "naunet"):
                            rr["alpha"] = float(f"{r['alpha']:10.3e}")
                        model.add(rid, rr)
            elif name == "remove_index":
                if not model.held:
                    continue
                i = int(op["pos"] * len(model.held))
                net.remove_reaction(i)
                model.held.pop(i)
            elif name == "remove_indices":
                if not model.held:
                    continue
                idxs = sorted({int(p * len(model.held)) for p in op["pos"]})
                arg = list(idxs)
                if int(op["pos"][0] * 1000) % 2 == 0:
                    # the same index named twice, in no particular order (e.g. where_species(a) + where_species(b)): still removed once
                    arg = arg[::-1] + [arg[0]]
                    obs["remove_indices_repeated"] += 1
                net.remove_reaction(arg)
                model.held = [h for i, h in enumerate(model.held) if i not in idxs]
            elif name in ("remove_instance", "remove_instances"):
                if not model.held:
                    continue
                pos = [op["pos"]] if name == "remove_instance" else op["pos"]
                targets = [model.held[int(p * len(model.held))] for p in pos]
                tobjs = []
                for rid, r in targets:
                    o = next((o for (i, rr, o) in objs.values() if i == rid), None)
                    if o is None:
                        o = net.reaction_list[[h[0] for h in model.held].index(rid)]
                    tobjs.append(o)
                net.remove_reaction(tobjs[0] if name == "remove_instance" else tobjs)
                keys = {rkey(r) for _, r in targets}
                model.held = [h for h in model.held if rkey(h[1]) not in keys]
            elif name == "set_allowed":
                net.allowed_species = list(op["names"])
                model.set_allowed(op["names"])
                # changing the allowed list later == constructing with that list
                rec = []
                for rid, r in model.held + model.skipped:
                    o = next((o for (i, rr, o) in objs.values() if i == rid), None)
                    rec.append(o if o is not None else mk(r))
                rec_sorted = rec
                if model.allowed and any(n not in model.allowed for n in model.required):
                    continue      # construction with required not in allowed is (legitimately) refused
                fresh = Network(rec_sorted, allowed_species=list(op["names"]) or None, required_species=model.required or None)
                a = sorted(rkey_of(o) for o in fresh.reaction_list)
                b = sorted(rkey_of(o) for o in net.reaction_list)
                if a != b or {s.name for s in fresh.species} != {s.name for s in net.species}:
                    viol.append(violation("allowed_later_differs_from_construction", f"step {step}: setting allowed={op['names']} later gives "
                                          f"{len(b)} reactions/{len(net.species)} species, construction gives {len(a)}/{len(fresh.species)}", step=step))
                obs["allowed_vs_construction_checked"] += 1
            elif name == "set_required":
                if model.allowed and any(n not in model.allowed for n in op["names"]):
                    continue
                net.required_species = list(op["names"])
                model.required = list(op["names"])
            elif name == "dedupe":
                dupes, dupidx, first = net.find_duplicate_reaction(op["mode"])
                seen, exp_idx = set(), []
                for i, (_, r) in enumerate(model.held):
                    k = dup_key(r, op["mode"])
                    if k in seen:
                        exp_idx.append(i)
                    seen.add(k)
                if list(dupidx) != exp_idx:
                    viol.append(violation("duplicate_report", f"step {step}: duplicates {list(dupidx)} expected {exp_idx} (mode {op['mode']})", step=step))
                    return
                net.remove_reaction(list(dupidx))
                model.held = [h for i, h in enumerate(model.held) if i not in exp_idx]
            elif name == "append_depletion":
                # the API analogue of `naunet extend --append-depletion`
                gas = sorted({n for _, r in model.held for n in r["reactants"] + r["products"]
                              if not n.startswith("#") and not n.endswith(("+", "-"))})
                for n in gas:
                    r = {"reactants": [n], "products": ["#" + n], "tmin": -1.0, "tmax": -1.0, "alpha": 1.0, "idx": -1, "type": 200}
                    o = Reaction([n], ["#" + n], alpha=1.0, reaction_type=RT.GRAIN_FREEZE)
                    counter[0] += 1
                    objs[id(o)] = (counter[0], r, o)
                    net.add_reaction(o)
                    model.add(counter[0], r)
            elif name == "reindex":
                net.reindex()
                if [o.idxfromfile for o in net.reaction_list] != list(range(len(net.reaction_list))):
                    viol.append(violation("reindex", f"step {step}: indices {[o.idxfromfile for o in net.reaction_list][:10]}", step=step))
        except Exception as e:
            viol.append(violation("api_raised", f"step {step} ({name}): {type(e).__name__}: {e}", trace=traceback.format_exc()[-800:], op=op))
            return
        okc = compare(step, name)
        if len(contracts.BROKEN) > nb0:
            w = {}
            if name.startswith("remove") or name == "dedupe":
                w["mechanism"] = "C14/remove-leaves-stale-species-cache"
            viol.append(violation("invariant_broken", f"step {step} ({name}): {contracts.BROKEN[-1][1][:300]}", step=step, op=name, **w))
            return
        if not okc:
            if viol and (name.startswith("remove") or name == "dedupe") and viol[-1]["kind"] in ("species_differ", "source_sink_differ"):
                viol[-1]["witness"]["mechanism"] = "C14/remove-leaves-stale-species-cache"
            return
    obs["invariant_evaluations"] += contracts.COUNTS["network_invariant"]
    contracts.COUNTS["network_invariant"] = 0


def rkey_of(o):
    return (tuple(sorted(s.name for s in o.reactants)), tuple(sorted(s.name for s in o.products)), o.temp_min, o.temp_max, int(o.reaction_type))


CONFIG_TOML = '[chemistry]\n[chemistry.symbol]\ngrain = "GRAIN"\nsurface = "#"\nbulk = "@"\n'


def run_extend(case, ctx, obs, viol):
    from cleo.testers.command_tester import CommandTester
    from naunet.console.application import Application
    from naunet.species import Species
    Species.reset()
    d = ctx.fresh_dir("x")
    (d / "naunet_config.toml").write_text(CONFIG_TOML)
    inp = d / "in.naunet"
    inp.write_text("\n".join(encode.naunet_line(r) for r in case["rs"]) + "\n")
    args = ["in.naunet", "out.naunet"]
    if case["reduce"]:
        args.append("--reduce-by-species=" + ",".join(case["reduce"]))
    if case["remove"]:
        args.append("--remove-species=" + ",".join(case["remove"]))
    if case["dedupe"]:
        args.append("--remove-duplicate")
    if case["depletion"]:
        args.append("--append-depletion")
    for o in case["desorption"]:
        args.append(f"--append-{o}-desorption")
    cwd = os.getcwd()
    os.chdir(d)
    try:
        app = Application()
        tester = CommandTester(app.find("extend"))
        rc = tester.execute(" ".join(args))
    except Exception as e:
        msg = f"{type(e).__name__}: {e}"
        w = {"mechanism": "C14/extend-reads-undeclared-option"} if "limit-species" in msg else {}
        viol.append(violation("extend_raised", f"naunet extend {' '.join(args)} -> {msg}", **w))
        return
    finally:
        os.chdir(cwd)
    obs["extend_runs"] += 1
    if rc != 0 or not (d / "out.naunet").exists():
        viol.append(violation("extend_failed", f"naunet extend {' '.join(args)} exited {rc}: {tester.io.fetch_error()[-300:]}"))
        return
    # reference pipeline
    held = [dict(r) for r in case["rs"]]
    for r in held:
        r["alpha"] = float(f"{r['alpha']:10.3e}")
    if case["reduce"]:
        held = [r for r in held if all(n in case["reduce"] for n in r["reactants"] + r["products"])]
    if case["remove"]:
        held = [r for r in held if not any(n in case["remove"] for n in r["reactants"] + r["products"])]
    if case["dedupe"]:
        seen, out = set(), []
        for r in held:
            k = rkey(r)
            if k not in seen:
                out.append(r)
            seen.add(k)
        held = out
    kept = [(rkey(r)[0], rkey(r)[1], 100) for r in held]   # all input reactions are written with type 100
    spec = {n for r in held for n in r["reactants"] + r["products"]}
    appended = []
    if case["depletion"]:
        for n in sorted(spec):
            if not n.startswith("#") and not n.endswith(("+", "-")):
                appended.append(((n,), ("#" + n,), 200))
        spec |= {p[0] for _, p, _ in appended}
    for o, t in (("thermal", 201), ("photon", 203), ("cosmic-ray", 202)):
        if o in case["desorption"]:
            for n in sorted(spec):
                if n.startswith("#"):
                    appended.append(((n,), (n[1:],), t))
            spec |= {p[0] for _, p, tt in appended if tt == t}
    got = []
    for line in (d / "out.naunet").read_text().splitlines():
        if not line.strip():
            continue
        f = [x.strip() for x in line.split(",")]
        got.append((int(f[0]), tuple(sorted(x for x in f[1:4] if x)), tuple(sorted(x for x in f[4:9] if x)), int(f[14])))
    exp = sorted(kept + appended)
    if sorted(g[1:] for g in got) != exp:
        missing = [e for e in exp if e not in [g[1:] for g in got]]
        extra = [g[1:] for g in got if g[1:] not in exp]
        w = {}
        if (case["remove"] or case["dedupe"]) and extra and not missing and all(t >= 200 for _, _, t in extra):
            w["mechanism"] = "C14/remove-leaves-stale-species-cache"
        viol.append(violation("extend_output_differs", f"naunet extend {' '.join(args[2:])}: missing {missing[:4]} extra {extra[:4]}", **w))
    if [g[0] for g in got] != list(range(len(got))):
        viol.append(violation("extend_indices", f"output indices {[g[0] for g in got][:12]} are not 0..n-1"))
    if [g[1:] for g in got][:len(kept)] != kept:
        viol.append(violation("extend_order", "kept reactions are not in file order"))


SPELL_CLASSES = [["e-", "E-"], ["GRAIN0", "GRAIN"], ["GRAIN-", "GRAIN0-"], ["GRAIN+", "GRAIN0+"]]


def spell_class(n):
    for c in SPELL_CLASSES:
        if n in c:
            return c[0]
    return n


def make_allowed_spelling(rng):
    """The allowed list names a species under one of its spellings (GRAIN0, e-), the reactions use another (GRAIN, E-): the filter goes by
    species identity, as every other operation does."""
    plain = ["H", "H+", "C", "C+", "O", "CO", "He", "He+"]
    rs = []
    def pick(c):
        return rng.choice(c)
    for i in range(rng.randint(4, 10)):
        k = rng.random()
        if k < 0.35:
            ion = rng.choice(["H+", "C+", "He+"])
            rs.append({"reactants": [ion, pick(SPELL_CLASSES[2])], "products": [ion[:-1], pick(SPELL_CLASSES[1])]})
        elif k < 0.55:
            rs.append({"reactants": [pick(SPELL_CLASSES[0]), pick(SPELL_CLASSES[1])], "products": [pick(SPELL_CLASSES[2])]})
        elif k < 0.75:
            ion = rng.choice(["H+", "C+", "He+"])
            rs.append({"reactants": [ion, pick(SPELL_CLASSES[0])], "products": [ion[:-1]]})
        else:
            rs.append({"reactants": [rng.choice(plain), rng.choice(plain)], "products": [rng.choice(plain)]})
    classes = sorted({spell_class(n) for r in rs for n in r["reactants"] + r["products"]})
    allowed_cls = rng.sample(classes, rng.randint(max(1, len(classes) - 3), len(classes)))
    allowed = [rng.choice(next((c for c in SPELL_CLASSES if c[0] == a), [a])) for a in allowed_cls]
    return {"kind": "allowed_spelling", "rs": rs, "allowed": allowed, "set_later": rng.random() < 0.5}


def run_allowed_spelling(case, ctx, obs, viol):
    from naunet.network import Network
    from naunet.reactions.reaction import Reaction
    from naunet.reactiontype import ReactionType as RT
    from naunet.species import Species
    Species.reset()
    objs = [Reaction(list(r["reactants"]), list(r["products"]), alpha=1.0 + i, reaction_type=RT.GAS_TWOBODY) for i, r in enumerate(case["rs"])]
    try:
        if case["set_later"]:
            net = Network(objs)
            net.allowed_species = list(case["allowed"])
        else:
            net = Network(objs, allowed_species=list(case["allowed"]))
    except Exception as e:
        viol.append(violation("edit_raised", f"allowed list {case['allowed']}: {type(e).__name__}: {e}"))
        return
    obs["allowed_spelling_cases"] += 1
    acl = {spell_class(a) for a in case["allowed"]}
    want = [1.0 + i for i, r in enumerate(case["rs"]) if all(spell_class(n) in acl for n in r["reactants"] + r["products"])]
    got = [r.alpha for r in net.reaction_list]
    if got != want:
        viol.append(violation("allowed_filter_differs", f"allowed {case['allowed']}: kept reactions (by alpha) {got}, by species identity {want}; reactions "
                              f"{[(r['reactants'], r['products']) for r in case['rs']]}"[:600]))


def run_repo_tests(case, ctx, obs, viol):
    log = ctx.fresh_dir("t") / "contracts.json"
    env = dict(os.environ, VERIF_CONTRACT_LOG=str(log))
    p = subprocess.run([common.PY, "-m", "pytest", "-q", "-p", "no:cacheprovider", "-p", "verif.contracts_plugin", "--timeout=900", "-x", "-q",
                        "tests/test_network.py", "tests/reactions", "tests/test_species.py"], cwd=str(common.REPO), env=env, capture_output=True, text=True, timeout=1500)
    import json
    if log.exists():
        d = json.loads(log.read_text())
        obs["invariant_evaluations"] += d["counts"].get("network_invariant", 0)
        obs["repo_test_invariant_evaluations"] += d["counts"].get("network_invariant", 0)
        for which, detail in d["broken"][:3]:
            viol.append(violation("invariant_broken_in_repo_tests", detail[:300]))


def run_case(case, ctx):
    obs, viol = Counter(), []
    if case["kind"] == "api":
        run_api(case, ctx, obs, viol)
        nontrivial = any(o["op"].startswith("remove") or o["op"] == "set_allowed" for o in case["ops"])
        sample = {"names": case["names"], "ops": [o["op"] for o in case["ops"]][:14]}
    elif case["kind"] == "extend":
        run_extend(case, ctx, obs, viol)
        nontrivial = bool(case["remove"] or case["reduce"] or case["dedupe"])
        sample = {"extend": {k: case[k] for k in ("reduce", "remove", "dedupe", "depletion", "desorption")}, "n_reactions": len(case["rs"])}
    elif case["kind"] == "allowed_spelling":
        run_allowed_spelling(case, ctx, obs, viol)
        nontrivial, sample = True, {"allowed": case["allowed"], "n_reactions": len(case["rs"])}
    else:
        run_repo_tests(case, ctx, obs, viol)
        nontrivial, sample = True, {"repo_tests_under_contracts": True}
    return {"status": "violated" if viol else "held", "violations": viol[:6], "obs": dict(obs), "nontrivial": nontrivial, "sample": sample}
