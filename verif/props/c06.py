"""C06 - a reaction acts only inside its declared temperature window.

Deciding step: files with windowed reactions (all window shapes, all formats that carry windows,
KROME syntax variants, adjacent piecewise families) are read and rendered by the real naunet; the
emitted EvalRates is compiled and executed at temperatures one ulp below / at / one ulp above
every declared bound, mid-window and far outside, once on a zero-initialised and once on a
NaN-prefilled rate array (so *assignment events* are visible).
"""
from __future__ import annotations

import math
import random
from collections import Counter

from .. import common
from ..common import violation
from ..cxx import lab
from ..gen import encode

ID = "C06"
LEVEL = "exploration"
BATCH = 1
TIMEOUT = 600
REQUIRED_OBS = ["window_evaluations", "boundary_evaluations", "piecewise_families_checked", "fmt_krome", "fmt_kida", "fmt_umist",
                "fmt_leeds", "fmt_uclchem", "fmt_naunet", "outside_exact_zero_checked", "fex_calls_checked"]
RULE = ("per case one file (kida, umist, leeds, uclchem, krome with .LE./.GE./</>/NONE/d-exponent syntax, native) of reactions with "
        "window shapes none / lower only / upper only / both, plus 1-2 piecewise families of 2-4 adjacent windows; temperatures: "
        "nextafter(bound, -inf), bound, nextafter(bound, +inf) for every bound, mid-window, 1e-3 and 1e9; non-trivial = case has a "
        "two-sided window and a piecewise family; distinct by file text")
ASSUMPTIONS = ["a bound <= 0 means unbounded (property text); rate = alpha (beta = gamma = 0) so that 'active' is observable as k == alpha"]

FORMATS = ["kida", "umist", "leeds", "uclchem", "krome", "naunet"]
INTFMT = {"kida", "leeds"}


def make_case(rng, fmt):
    names = ["H", "H2", "C", "O", "CO", "OH", "H2O", "He", "N", "N2"]
    reacs = []

    def bound(lo=2, hi=20000):
        if lo <= 2 and rng.random() < 0.12:
            return 1.0 if fmt in INTFMT or rng.random() < 0.5 else 0.5     # small positive bounds are bounds, not "unbounded"
        if hi >= 40000 and fmt in ("naunet", "umist", "uclchem", "krome") and rng.random() < 0.1:
            # limits of a million kelvin and more with many significant digits (wider than the native format's usual column)
            return rng.choice([1234567.0, 2345678.0, 12345678.0, 1000001.0])
        if rng.random() < 0.3:
            # round bounds as database files have them (10, 300, 2000, 5500, 1e4, 41000): these are the ones written as 2.d3 / 1d4
            cand = [v for v in (10, 20, 50, 100, 200, 300, 500, 1000, 2000, 3000, 5000, 5500, 8000, 10000, 20000, 30000, 41000) if lo <= v <= hi]
            if cand:
                return float(rng.choice(cand))
        if fmt in INTFMT:
            return float(rng.randint(lo, hi))
        if fmt == "naunet":
            return float(f"{rng.uniform(lo, hi):9.2f}")
        return rng.choice([float(rng.randint(lo, hi)), round(rng.uniform(lo, hi), 3)])

    def add(tmin, tmax, family=None):
        r = {"reactants": [rng.choice(names), rng.choice(names)], "products": [rng.choice(names)], "idx": len(reacs) + 1,
             "alpha": round(rng.uniform(0.5, 2.0), 2 if fmt == "leeds" else 3), "beta": 0.0, "gamma": 0.0, "tmin": float(tmin), "tmax": float(tmax), "pseudo": None,
             "family": family, "formula": 3, "code": "NN", "rtype": 1, "type": 100, "marker": None}
        r["rate"] = f"{r['alpha']:.3f}d0" if rng.random() < 0.5 else f"{r['alpha']:.3f}"
        reacs.append(r)
        return r

    unb_lo = {"kida": -9999, "umist": -9999, "leeds": 0, "uclchem": -1, "krome": -1, "naunet": -1}[fmt]
    unb_hi = {"kida": -9999, "umist": -9999, "leeds": 0, "uclchem": -1, "krome": -1, "naunet": -1}[fmt]
    if fmt == "kida":
        unb_hi = -1
    for _ in range(rng.randint(4, 10)):
        shape = rng.choice(["none", "lower", "upper", "both", "both"])
        lo = bound(2, 2000)
        hi = bound(int(lo) + 1, 40000)
        if shape == "none":
            add(unb_lo, unb_hi)
        elif shape == "lower":
            add(lo, unb_hi)
        elif shape == "upper":
            add(unb_lo, hi)
        else:
            add(lo, hi)
    for fam in range(rng.randint(1, 2)):
        k = rng.randint(2, 4)
        cuts = sorted({bound(5, 30000) for _ in range(k + 1)})
        if len(cuts) < 3:
            continue
        fam_names = [rng.choice(names), rng.choice(names)]
        prod = [rng.choice(names)]
        for a, b in zip(cuts, cuts[1:]):
            r = add(a, b, family=fam)
            r["reactants"], r["products"] = list(fam_names), list(prod)
    if fmt == "uclchem":
        # UCLCHEM-format networks always carry H2 (a network without it is the known C10 finding, not C06's subject)
        add(unb_lo, unb_hi)
        reacs[-1]["reactants"], reacs[-1]["products"] = ["H", "H"], ["H2"]
    if fmt == "krome":
        # the same fit text (containing exp / pow) on reactions with different windows: every reaction is evaluated inside its own window
        shared = {}
        for r in reacs:
            if rng.random() < 0.5:
                a = shared.setdefault(rng.randint(0, 1), r["alpha"])
                r["alpha"] = a
                r["rate"] = f"{a:.3f}d0*exp(0.0d0*invT)*(T32)**(0.0d0)"
                r["shared_text"] = True
        for r in reacs:
            def enc(v, upper):
                # number spelling and operator prefix are chosen independently per bound: primordial.krome mixes `.LE.5.5e3`, `>5.5e3`,
                # `.LE.2.d3` and `.GT.2d3`
                if v <= 0:
                    return rng.choice(["NONE", "N", ""])
                s = encode._num(v)
                if rng.random() < 0.5 and v == int(v) and v >= 10:
                    e = len(str(int(v))) - 1
                    m = v / 10 ** e
                    if float(f"{m!r}e{e}") == v:
                        forms = [f"{m!r}d{e}", f"{m!r}e{e}"]
                        if m == int(m):
                            forms += [f"{int(m)}.d{e}", f"{int(m)}d{e}", f"{int(m)}.e{e}"]      # Fortran: 2.d3, 2d3
                        s = rng.choice(forms)
                if rng.random() < 0.5:
                    s = rng.choice(["<", ".LE.", ".LT."] if upper else [">", ".GE.", ".GT."]) + s
                return s
            r["tmin_s"], r["tmax_s"] = enc(r["tmin"], False), enc(r["tmax"], True)
    return {"format": fmt, "reactions": reacs}


def gen_cases(tier):
    rng = common.rng_for(ID)
    n = 36 if tier == "quick" else 600
    return [make_case(random.Random(rng.getrandbits(64)), FORMATS[i % 6]) for i in range(n)]


def active(r, T):
    return (r["tmin"] <= 0 or T >= r["tmin"]) and (r["tmax"] <= 0 or T < r["tmax"])


def run_case(case, ctx):
    from naunet.network import Network
    from naunet.species import Species
    obs, viol = Counter(), []
    fmt = case["format"]
    reacs = case["reactions"]
    work = ctx.fresh_dir("w")
    if fmt == "krome":
        lines = ["@format:idx,R,R,P,Tmin,Tmax,rate"] + [encode.krome_line(r, 2, 1, r["tmin_s"], r["tmax_s"]) for r in reacs]
    else:
        lines = [encode.LINE[fmt](r) for r in reacs]
    p = work / f"net.{fmt}"
    p.write_text("\n".join(lines) + "\n")
    Species.reset()
    obs["fmt_" + fmt] += 1
    sample = {"format": fmt, "lines": lines[:4], "windows": [(r["tmin"], r["tmax"]) for r in reacs][:8]}
    try:
        net = Network(filelist=str(p), fileformats=fmt)
        proj = work / "proj"
        net.to_code(method="dense", path=str(proj))
        b = lab.build_cvode(proj, work / "b", "dense", ctx.cache, core_only=True)      # with the EvalRates seam on fex/jac
    except lab.BuildError as e:
        return {"status": "violated", "violations": [violation("emitted_code_does_not_compile", f"{fmt}: {e.unit}: {'; '.join(e.diagnostics()[:2])}")],
                "obs": dict(obs), "sample": sample}
    except Exception as e:
        import traceback
        return {"status": "violated", "violations": [violation("generator_raised", f"{fmt}: {type(e).__name__}: {e}", trace=traceback.format_exc()[-1000:])],
                "obs": dict(obs), "sample": sample}
    # ---- the network written in the native format and read back declares the same windows (to the two printed decimals)
    try:
        wf = work / "rewritten.naunet"
        net.write(str(wf), "naunet")
        Species.reset()
        net_b = Network(filelist=str(wf), fileformats="naunet")
        obs["windows_after_native_rewrite_checked"] += 1
        w0 = [(float(f"{q.temp_min:.2f}"), float(f"{q.temp_max:.2f}")) for q in net.reaction_list]
        w1 = [(q.temp_min, q.temp_max) for q in net_b.reaction_list]
        if w0 != w1:
            k = next((i for i, (a, c) in enumerate(zip(w0, w1)) if a != c), -1)
            viol.append(violation("window_changed_by_native_rewrite", f"{fmt}: reaction {k} declares {w0[k] if k >= 0 else len(w0)}, after write + read in the native "
                                  f"format {w1[k] if k >= 0 else len(w1)}"))
    except Exception as e:
        obs["native_rewrite_refused"] += 1
    bounds = sorted({b for r in reacs for b in (r["tmin"], r["tmax"]) if b > 0})
    temps = {1e-3, 1e9}
    for bnd in bounds:
        temps.update([math.nextafter(bnd, -math.inf), bnd, math.nextafter(bnd, math.inf)])
    for a, c in zip(bounds, bounds[1:]):
        temps.add((a + c) / 2)
    temps = sorted(temps)
    macros = lab.parse_macros(proj)
    cmds = ["set nH 1e4", "y " + " ".join("1.0" for _ in range(max(1, macros["NSPECIES"])))]
    for T in temps:
        cmds += [f"set Tgas {lab.fmt(T)}", "rates", "rates_nan"]
    # the dynamics: Fex and Jac called repeatedly in one process while T moves in and out of the windows
    # (ascending then descending), the rate vector they actually used is logged by the EvalRates seam
    sweep = temps + temps[::-1]
    cmds.append("mode pass")
    for T in sweep:
        cmds += [f"set Tgas {lab.fmt(T)}", "fex", "jac"]
    rr = lab.run_driver(b["exe"], cmds, work / "b")
    if rr.crashed() or rr.sanitizer_reports:
        return {"status": "violated", "violations": [violation("sanitizer_report_or_crash", (rr.sanitizer_reports or ["driver crashed"])[0][:300], stderr=rr.stderr[-1200:])],
                "obs": dict(obs), "sample": sample}
    ev0, evn = rr.by_ev("rates"), rr.by_ev("rates_nan")
    fex_ev = rr.by_ev("fex")
    for T, fe in zip(sweep, fex_ev):
        obs["fex_calls_checked"] += 1
        for i, r in enumerate(reacs):
            want = r["alpha"] if active(r, T) else 0.0
            if fe["k"][i] != want:
                viol.append(violation("fex_used_stale_or_wrong_rate", f"{fmt} reaction {i} window [{r['tmin']},{r['tmax']}) at T={T!r}: Fex used k={fe['k'][i]!r}, "
                                      f"expected {want!r}", T=T))
                break
        if viol:
            break
    for T, je in zip(sweep, rr.by_ev("jac")):
        obs["jac_calls_checked"] += 1
        bad = [i for i, r in enumerate(reacs) if je["k"][i] != (r["alpha"] if active(r, T) else 0.0)]
        if bad:
            i = bad[0]
            viol.append(violation("jac_used_stale_or_wrong_rate", f"{fmt} reaction {i} window [{reacs[i]['tmin']},{reacs[i]['tmax']}) at T={T!r}: Jac used "
                                  f"k={je['k'][i]!r}", T=T))
            break
    fams = {}
    for i, r in enumerate(reacs):
        if r["family"] is not None:
            fams.setdefault(r["family"], []).append(i)
    for T, e0, en in zip(temps, ev0, evn):
        k0, kn = e0["k"], en["k"]
        is_boundary = any(abs(T - bnd) <= 2 * math.ulp(bnd) for bnd in bounds)
        for i, r in enumerate(reacs):
            obs["window_evaluations"] += 1
            if is_boundary:
                obs["boundary_evaluations"] += 1
            act = active(r, T)
            assigned = not (isinstance(kn[i], float) and math.isnan(kn[i]))
            if act:
                if k0[i] != r["alpha"] or not assigned:
                    viol.append(violation("inactive_inside_window", f"{fmt} reaction {i} window [{r['tmin']},{r['tmax']}) at T={T!r}: k={k0[i]!r} "
                                          f"(assigned={assigned}), expected {r['alpha']!r}", line=lines[i + (1 if fmt == 'krome' else 0)], T=T))
            else:
                obs["outside_exact_zero_checked"] += 1
                if k0[i] != 0.0 or assigned:
                    viol.append(violation("active_outside_window", f"{fmt} reaction {i} window [{r['tmin']},{r['tmax']}) at T={T!r}: k={k0[i]!r} "
                                          f"(assigned={assigned}), expected exactly 0", line=lines[i + (1 if fmt == 'krome' else 0)], T=T))
        for fam, idxs in fams.items():
            lo, hi = reacs[idxs[0]]["tmin"], reacs[idxs[-1]]["tmax"]
            if lo <= T < hi:
                obs["piecewise_families_checked"] += 1
                nact = sum(1 for i in idxs if k0[i] != 0.0)
                if nact != 1:
                    viol.append(violation("piecewise_not_exactly_one", f"{fmt}: {nact} active pieces at T={T!r} for family windows "
                                          f"{[(reacs[i]['tmin'], reacs[i]['tmax']) for i in idxs]}", T=T))
    nontrivial = any(r["tmin"] > 0 and r["tmax"] > 0 for r in reacs) and bool(fams)
    return {"status": "violated" if viol else "held", "violations": viol[:8], "obs": dict(obs), "nontrivial": nontrivial, "sample": sample}
