"""C04 - balanced networks give element- and charge-conserving generated dynamics.

Deciding step: networks balanced *by construction* (atoms and charge of the reactants are
partitioned into the products) are rendered, compiled and executed; rate coefficients of
arbitrary sign and magnitude (1e-30..1e30) are injected through the EvalRates seam and the
count-weighted sums of the compiled ydot are taken with generator-side compositions.
GetElementAbund is compared with the count-weighted sum of abundances.
"""
from __future__ import annotations

import random
from collections import Counter

from .. import common
from ..common import close, violation
from ..gen import chem, encode
from . import c01
from . import structural as S

ID = "C04"
LEVEL = "exploration"
BATCH = 1
TIMEOUT = 3000
REQUIRED_OBS = ["element_sums_checked", "charge_sums_checked", "helper_values_checked", "backend_dense", "backend_sparse", "tag_spelling_upper_replace", "tag_G_prefix_file", "tag_grain_charge_states", "tag_isotope_ice", "tag_isolated_required_species",
                "tag_mixed_electron_spelling", "tag_ice_species", "tag_labelled_species"]
RULE = ("networks balanced by construction (ions, electrons spelt e-/E-/E/e, ortho/para labels, D isotopologues, ice species "
        "with gas counterparts under '#' and 'G' prefixes, entry via API or merged files with different spellings) x injected "
        "rate vectors of random sign and magnitude 1e-30..1e30 x random abundances over 12 decades; non-trivial = has an "
        "ion-electron reaction or an ice species or a labelled species; distinct by sha1 of the abstract case")
ASSUMPTIONS = c01.ASSUMPTIONS + ["balance is guaranteed by the generator's atom partition, compositions are the generator's own"]

SPELL = ["e-", "E-", "E", "e"]


def respell(name, spelling, prefix):
    if name.upper() in ("E", "E-"):
        return spelling
    if name.startswith("#") and prefix != "#":
        return prefix + name[1:]
    return name


def grain_species(name):
    core = name.rstrip("+-")
    q = name.count("+", len(core)) - name.count("-", len(core))
    return {"name": name, "comp": {"GRAIN": 1}, "charge": q, "surface": False, "label": "", "electron": False,
            "alias": core + ("I" * (q + 1) if q >= 0 else "M" * (-q)), "massnumber": 0}


def add_grain_charging(rng, net):
    """Dust grains in several charge states with balanced charging / recombination reactions:
    e- + GRAIN0 -> GRAIN-,  X+ + GRAIN- -> X + GRAIN0,  X+ + GRAIN0 -> X + GRAIN+,  e- + GRAIN+ -> GRAIN0."""
    by = {s["name"]: s for s in net["species"]}
    states = ["GRAIN0", "GRAIN-"] + (["GRAIN+"] if rng.random() < 0.5 else [])
    for g in states:
        by[g] = grain_species(g)
    if "e-" not in by:
        by["e-"] = chem.make_species([], electron="e-")
    new = [(["e-", "GRAIN0"], ["GRAIN-"])]
    if "GRAIN+" in states:
        new.append((["e-", "GRAIN+"], ["GRAIN0"]))
    # cation + neutral pairs already in the pool (same composition, charge +1 / 0, unlabelled gas species)
    neutral = {tuple(sorted(s["comp"].items())): s for s in net["species"] if s["charge"] == 0 and not s["surface"] and not s["label"] and not s["electron"]}
    for s in list(net["species"]):
        if s["charge"] == 1 and not s["label"] and tuple(sorted(s["comp"].items())) in neutral:
            n0 = neutral[tuple(sorted(s["comp"].items()))]["name"]
            new.append(([s["name"], "GRAIN-"], [n0, "GRAIN0"]))
            if "GRAIN+" in states and rng.random() < 0.5:
                new.append(([s["name"], "GRAIN0"], [n0, "GRAIN+"]))
    for res, prs in new:
        net["reactions"].append({"reactants": res, "products": prs, "pseudo": None, "idx": len(net["reactions"]) + 1})
    used = {n for r in net["reactions"] for n in r["reactants"] + r["products"]}
    net["species"] = [by[n] for n in sorted(used)]


def make_mixed_prefix_case(rng):
    """Stratum: the same ice species spelled '#X' in one file and 'GX' in a Leeds file of the same network (plus the electron under two
    spellings): both spellings are one species, so its freeze-out and desorption terms must cancel in the conservation sums."""
    for _ in range(50):
        net = chem.balanced_network(rng, rng.randint(4, 8), rng.randint(2, 8), electron="e-", surface=True, labels=False)
        cand = [s for s in net["species"] if not s["surface"] and not s["electron"] and s["charge"] == 0 and len(s["name"]) <= 7 and not s["label"]]
        if not cand or not net["reactions"]:
            continue
        g = rng.choice(cand)
        ice = chem.make_species(chem._parts_of(g), surface=True)
        by = {s["name"]: s for s in net["species"]}
        by.setdefault(ice["name"], ice)
        n0 = len(net["reactions"])
        net["reactions"].append({"reactants": [g["name"]], "products": [ice["name"]], "pseudo": None, "idx": n0 + 1})
        net["reactions"].append({"reactants": [ice["name"]], "products": [g["name"]], "pseudo": None, "idx": n0 + 2})
        used = {n for r in net["reactions"] for n in r["reactants"] + r["products"]}
        net["species"] = [by[n] for n in sorted(used)]
        reacs = net["reactions"]
        head = [f for f in ("kida", "umist", "naunet") if all(encode.fits(f, reacs[i]) for i in range(n0 + 1))]
        if not head or not encode.fits("leeds", dict(reacs[-1], reactants=["G" + ice["name"][1:]])):
            continue
        case = {"net": net, "entry": "files", "indexed": True, "stratum": "mixed_prefix",
                "chunks": [{"format": rng.choice(head), "reactions": list(range(n0 + 1)), "electron": rng.choice(SPELL)},
                           {"format": "leeds", "reactions": [n0 + 1], "electron": rng.choice(SPELL)}]}
        case["alphas"] = [round(a, 2) for a in chem.distinct_alphas(rng, len(reacs))]
        names = [s["name"] for s in net["species"]]
        case["ys"] = []
        for _ in range(2):
            yv = {n: 10 ** rng.uniform(-6, 6) for n in names}
            yv["__TGAS__"] = 1e4
            case["ys"].append(yv)
        case["ks"] = [[rng.choice([-1, 1]) * 10 ** rng.uniform(-30, 30) for _ in range(len(reacs))] for _ in range(3)]
        return case
    return None


def make_isotope_case(rng):
    """Stratum: digit-leading isotope symbols from a user element list (13C, 18O, 15N) in gas and ice species next to the main isotopologues:
    13CO / CO, #13CO / #CO, C18O ... are different species; balanced exchange, freeze-out and desorption reactions."""
    M = chem.make_species
    iso = rng.choice([("13C", "C"), ("18O", "O"), ("15N", "N")])
    if iso[1] == "C":
        heavy, light = [("13C", 1), ("O", 1)], [("C", 1), ("O", 1)]
    elif iso[1] == "O":
        heavy, light = [("C", 1), ("18O", 1)], [("C", 1), ("O", 1)]
    else:
        heavy, light = [("15N", 1), ("N", 1)], [("N", 2)]
    sp = {}
    def S_(parts, **kw):
        s_ = M(parts, **kw)
        sp[s_["name"]] = s_
        return s_["name"]
    gh, gl, ih, il = S_(heavy), S_(light), S_(heavy, surface=True), S_(light, surface=True)
    ah, al = S_([(iso[0], 1)]), S_([(iso[1], 1)])
    ahp, alp = S_([(iso[0], 1)], charge=1), S_([(iso[1], 1)], charge=1)
    e = "e-"
    sp[e] = M([], electron=e)
    templ = [([gh], [ih]), ([gl], [il]), ([ih], [gh]), ([il], [gl]), ([ih, il], [il, ih]), ([ahp, gl], [alp, gh]) if iso[1] != "N" else ([ahp, al], [alp, ah]),
             ([ahp, e], [ah]), ([alp, e], [al]), ([ih, ih], [gh, ih]), ([gh, alp], [gh, alp])]
    rng.shuffle(templ)
    reacs = [{"reactants": list(r), "products": list(p), "pseudo": None, "idx": i + 1} for i, (r, p) in enumerate(templ[:rng.randint(6, len(templ))])]
    if not any(ih in r["reactants"] + r["products"] for r in reacs) or not any(il in r["reactants"] + r["products"] for r in reacs):
        reacs += [{"reactants": [gh], "products": [ih], "pseudo": None, "idx": len(reacs) + 1}, {"reactants": [il], "products": [gl], "pseudo": None, "idx": len(reacs) + 2}]
    used = {n for r in reacs for n in r["reactants"] + r["products"]}
    net = {"species": [sp[n] for n in sorted(used)], "reactions": reacs}
    case = {"net": net, "entry": "api", "indexed": True, "spelling": "isotopes", "stratum": "isotope_ice"}
    case["alphas"] = chem.distinct_alphas(rng, len(reacs))
    names = [s_["name"] for s_ in net["species"]]
    case["ys"] = []
    for _ in range(2):
        yv = {n: 10 ** rng.uniform(-6, 6) for n in names}
        yv["__TGAS__"] = 1e4
        case["ys"].append(yv)
    case["ks"] = [[rng.choice([-1, 1]) * 10 ** rng.uniform(-30, 30) for _ in range(len(reacs))] for _ in range(3)]
    return case


def make_case(rng, tier):
    surface = rng.random() < 0.4
    upper = rng.random() < 0.25
    net = chem.balanced_network(rng, rng.randint(4, 10), rng.randint(2, 16), electron="e-", surface=surface, labels=not upper)
    case = {"net": net, "entry": "api", "indexed": True}
    if upper:
        # the UCLCHEM way of spelling (upper-case symbols + replacement table): anions, cations and ice species must keep
        # their identity through the renaming
        un = chem.upper_variant(net)
        if un is not None:
            net = case["net"] = un
            case["spelling"] = "upper_replace"
    if not case.get("spelling") and rng.random() < 0.25:
        add_grain_charging(rng, net)
        case["grain_charging"] = True
    if not case.get("spelling") and rng.random() < 0.3:
        # a species that takes part in no reaction (kept for cooling / mean molecular weight): its derivative is exactly zero, so the element it
        # carries stays conserved
        have = {s_["name"] for s_ in net["species"]}
        extra = [a for a in ("He", "Ar", "Ne", "P", "F") if a not in have and a in chem.MASSNUM]
        if extra:
            a = rng.choice(extra)
            net["species"].append(chem.make_species([(a, 1)]))
            net["required"] = [a]
            case["isolated_required"] = a
    reacs = net["reactions"]
    case["alphas"] = chem.distinct_alphas(rng, len(reacs))
    if reacs and rng.random() < 0.5 and not case.get("grain_charging"):
        # file entry with per-file spellings of the electron and of the surface prefix
        n = len(reacs)
        ncut = rng.randint(1, min(3, n))
        cuts = sorted(rng.sample(range(1, n), ncut - 1)) if ncut > 1 else []
        bounds = [0] + cuts + [n]
        chunks, ok = [], True
        for a, b in zip(bounds, bounds[1:]):
            idxs = list(range(a, b))
            spelling = rng.choice(SPELL if not case.get("spelling") else ["E-"])
            cands = []
            for f in (("kida", "umist", "naunet", "leeds") if not case.get("spelling") else ("kida", "umist", "naunet")):
                pref = "G" if f == "leeds" else "#"
                rs = [dict(reacs[i], reactants=[respell(x, spelling, pref) for x in reacs[i]["reactants"]],
                           products=[respell(x, spelling, pref) for x in reacs[i]["products"]]) for i in idxs]
                if all(encode.fits(f, r) for r in rs):
                    cands.append(f)
            if not cands:
                ok = False
                break
            chunks.append({"format": rng.choice(cands), "reactions": idxs, "electron": spelling})
        if ok:
            case["entry"] = "files"
            case["chunks"] = chunks
            case["alphas"] = [round(a, 2) for a in case["alphas"]]
    elif reacs and rng.random() < 0.5 and not case.get("spelling"):
        case["electron_api"] = rng.choice(SPELL)
    names = [s["name"] for s in net["species"]]
    case["ys"] = []
    for _ in range(2):
        yv = {n: 10 ** rng.uniform(-6, 6) for n in names}
        yv["__TGAS__"] = 1e4
        case["ys"].append(yv)
    case["ks"] = [[rng.choice([-1, 1]) * 10 ** rng.uniform(-30, 30) for _ in range(max(1, len(reacs)))] for _ in range(3)]
    return case


def gen_cases(tier):
    rng = common.rng_for(ID)
    n = 40 if tier == "quick" else 600
    cases = [make_case(random.Random(rng.getrandbits(64)), tier) for _ in range(n)]
    for _ in range(4 if tier == "quick" else 40):
        c = make_mixed_prefix_case(random.Random(rng.getrandbits(64)))
        if c:
            cases.append(c)
    for _ in range(3 if tier == "quick" else 30):
        cases.append(make_isotope_case(random.Random(rng.getrandbits(64))))
    # bundled real-world networks: the expected element / charge drift is computed per reaction from /verif's own compositions
    # (zero for every balanced reaction), so unbalanced reactions of a database network do not raise false alarms
    r = random.Random(rng.getrandbits(64))
    for ex, bes in ([("primordial", None)] + ([("deuterium", ["dense", "sparse"]), ("cloud", ["dense", "sparse", "odeint"])] if tier == "thorough" else [])):
        c = c01.bundled_case(ex, r, backends=bes)
        c.pop("cooling", None)           # conservation is a statement about the chemical equations
        c["ks"] = [[r.choice([-1, 1]) * 10 ** r.uniform(-20, 20) for _ in range(len(c["net"]["reactions"]))] for _ in range(2)]
        if ex != "cloud":
            c["bundled_no_thermal"] = True
        cases.append(c)
    return cases


def build_network(case, work):
    """C04 needs per-chunk respelling, so it builds its own files and defers to the shared builder otherwise."""
    from naunet.network import Network
    from naunet.reactions.reaction import Reaction
    from naunet.reactiontype import ReactionType as RT
    from naunet.species import Species
    Species.reset()
    net, alphas = case["net"], case["alphas"]
    S.install_spelling(case)
    S.provide_binding_energies(net)
    if case["entry"] == "api":
        sp = case.get("electron_api", "E-" if case.get("spelling") else "e-")
        rl = []
        for r, a in zip(net["reactions"], alphas):
            res = [respell(x, sp, "#") for x in r["reactants"]] + ([r["pseudo"]] if r.get("pseudo") else [])
            rl.append(Reaction(res, [respell(x, sp, "#") for x in r["products"]], alpha=a, reaction_type=RT.GAS_TWOBODY, idxfromfile=r["idx"]))
        return Network(rl, required_species=list(net.get("required") or []) or None, **S.spelling_kwargs(case))
    files, fmts = [], []
    for ci, ch in enumerate(case["chunks"]):
        fmt = ch["format"]
        pref = "G" if fmt == "leeds" else "#"
        lines = []
        for ri in ch["reactions"]:
            r = dict(net["reactions"][ri])
            r["reactants"] = [respell(x, ch["electron"], pref) for x in r["reactants"]]
            r["products"] = [respell(x, ch["electron"], pref) for x in r["products"]]
            r.update(alpha=alphas[ri], beta=0.0, gamma=0.0, tmin=-9999 if fmt != "leeds" else 0, tmax=9999 if fmt != "leeds" else 0,
                     formula=3, code="NN", type=100, rtype=1)
            lines.append(encode.LINE[fmt](r))
        p = work / f"net{ci}.{fmt}"
        p.write_text("\n".join(lines) + "\n")
        files.append(str(p))
        fmts.append(fmt)
    return Network(filelist=files, fileformats=fmts, required_species=list(net.get("required") or []) or None, **S.spelling_kwargs(case))


def run_case(case, ctx):
    obs, viol = Counter(), []
    backends = case.get("backends") or ["dense", "sparse", "cusparse", "odeint"]
    orig = S.build_network
    if case.get("bundled") and case.get("bundled_no_thermal"):
        def build_bundled(c, work):
            import importlib
            from naunet.network import Network
            from naunet.species import Species
            Species.reset()
            mod = importlib.import_module(f"naunet.examples.{c['bundled']}")
            return Network(filelist=str(common.REPO / "naunet" / "examples" / c["bundled"] / mod.files), fileformats=mod.formats, elements=list(mod.elements),
                           pseudo_elements=list(mod.pseudo_elements), allowed_species=list(mod.allowed_species), required_species=list(mod.extra_species))
        S.build_network = build_bundled
    elif case.get("bundled"):
        S.build_network = orig            # configured the way the example module configures it (replacement table, ice species, ODE modifiers)
    else:
        S.build_network = build_network
    try:
        out = S.run_backends(case, ctx, backends, {"pass", "inject", "elem"})
    finally:
        S.build_network = orig
    usable = S.preamble(out, backends, viol, obs)
    species = case["net"]["species"]
    elements = sorted({e for s in species for e in s["comp"]})
    by_name = {s["name"]: s for s in species}
    # per-reaction imbalance (all zero for the generated networks, which are balanced by construction)
    imb = []
    for r in case["net"]["reactions"]:
        d = {e: 0 for e in elements}
        q = 0
        for nme, sgn in [(x, -1) for x in r["reactants"]] + [(x, 1) for x in r["products"]]:
            for e, c in by_name[nme]["comp"].items():
                d[e] += sgn * c
            q += sgn * by_name[nme]["charge"]
        imb.append((d, q))
    if case.get("bundled"):
        obs["bundled_unbalanced_reactions"] += sum(1 for d, q in imb if q or any(d.values()))
        obs["tag_bundled_" + case["bundled"]] += 1
    for be in usable:
        o = out[be]
        n, slots = o["n_eq"], o["slots"]
        nre = len(case["net"]["reactions"])
        for run in o["runs"]:
            k_rates = None
            for st, ev in run["events"]:
                name = st if isinstance(st, str) else st[0]
                if name == "rates":
                    k_rates = ev["k"]
                if name in ("fex", "inject_fex"):
                    for s in range(len(run["y"])):
                        y = run["y"][s]
                        if name == "inject_fex":
                            k = st[1]
                        elif be == "odeint":
                            k = k_rates
                        else:
                            k = ev["k"][s * nre:(s + 1) * nre] if be == "cusparse" else ev["k"]
                        ydot = ev["ydot"][s * n:(s + 1) * n]
                        _, scale = S.ref_fex(case, slots, k, y, n_eq=n)
                        monos = []
                        for ri, r in enumerate(case["net"]["reactions"]):
                            m = k[ri]
                            for nme in r["reactants"]:
                                m *= y[slots[nme]]
                            monos.append(m)
                        for e in elements:
                            tot = sum(sp["comp"].get(e, 0) * ydot[slots[sp["name"]]] for sp in species)
                            sc = sum(sp["comp"].get(e, 0) * scale[slots[sp["name"]]] for sp in species)
                            exp_e = sum(imb[ri][0][e] * monos[ri] for ri in range(len(monos)) if imb[ri][0][e])
                            obs["element_sums_checked"] += 1
                            if not close(tot, exp_e, sc):
                                viol.append(violation("element_not_conserved", f"{be} {name}: sum_i c(i,{e}) ydot_i = {tot!r} (scale {sc!r})",
                                                      backend=be, element=e, total=tot, scale=sc))
                                break
                        tot = sum(sp["charge"] * ydot[slots[sp["name"]]] for sp in species)
                        sc = sum(abs(sp["charge"]) * scale[slots[sp["name"]]] for sp in species)
                        exp_q = sum(imb[ri][1] * monos[ri] for ri in range(len(monos)) if imb[ri][1])
                        obs["charge_sums_checked"] += 1
                        if not close(tot, exp_q, sc):
                            viol.append(violation("charge_not_conserved", f"{be} {name}: sum_i q_i ydot_i = {tot!r} (scale {sc!r})", backend=be))
                elif name == "elem":
                    y = run["y"][0]
                    elem_idx = {k[len("IDX_ELEM_"):]: v for k, v in o["idx"].items() if k.startswith("IDX_ELEM_")}
                    for e, ei in elem_idx.items():
                        ref = sum(sp["comp"].get(e, 0) * y[slots[sp["name"]]] for sp in species)
                        sc = sum(abs(sp["comp"].get(e, 0) * y[slots[sp["name"]]]) for sp in species)
                        obs["helper_values_checked"] += 1
                        if ei >= len(ev["elem"]) or not close(ev["elem"][ei], ref, sc):
                            viol.append(violation("element_helper", f"{be}: GetElementAbund(y, {e})={ev['elem'][ei] if ei < len(ev['elem']) else None!r}, "
                                                  f"count-weighted sum {ref!r}", backend=be, element=e))
    tags = set()
    if any(s["surface"] for s in species):
        tags.add("ice_species")
    if any(s["label"] for s in species):
        tags.add("labelled_species")
    if any(s["electron"] for s in species):
        tags.add("electron")
    if any("D" in s["comp"] for s in species):
        tags.add("deuterated")
    if case.get("grain_charging"):
        tags.add("grain_charge_states")
    if case.get("isolated_required"):
        tags.add("isolated_required_species")
    if case.get("stratum") == "isotope_ice":
        tags.add("isotope_ice")
    if case.get("spelling"):
        tags.add("spelling_" + case["spelling"])
        if any(s["charge"] < 0 and not s["electron"] for s in species):
            tags.add("anion_under_replacement")
    if case["entry"] == "files":
        tags.add("file_entry")
        if len({c["electron"] for c in case["chunks"]}) > 1 and any(s["electron"] for s in species):
            tags.add("mixed_electron_spelling")
        if any(c["format"] == "leeds" for c in case["chunks"]) and any(s["surface"] for s in species):
            tags.add("G_prefix_file")
    for t in tags:
        obs["tag_" + t] += 1
    smp = S.describe(case)
    smp["tags"] = sorted(tags)
    if case.get("chunks"):
        smp["chunks"] = [(c["format"], c["electron"], len(c["reactions"])) for c in case["chunks"]]
    return {"status": "violated" if viol else "held", "violations": viol[:10], "obs": dict(obs),
            "nontrivial": bool(tags & {"electron", "ice_species", "labelled_species"}), "sample": smp}
