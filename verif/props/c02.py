"""C02 - the analytic Jacobian is the exact derivative of the emitted right-hand side.

Deciding step: with rate coefficients, npar, mu, gamma *frozen* through the seams, the compiled
Fex is differentiated along every y_j with a 4-point stencil that is exact for polynomials of
degree <= 4 (the frozen RHS has degree <= 3 in any abundance); all n^2 entries are compared with
what the compiled Jac filled (dense read back, CSR decoded with absent = 0).  cusparse (emulated)
and odeint matrices are compared with the analytic derivative of the abstract network under
injected / passthrough rates (and are tied bit-for-bit to dense by C03).
"""
from __future__ import annotations

import random
from collections import Counter

from .. import common
from ..common import close, violation
from ..gen import chem
from . import c01
from . import structural as S

ID = "C02"
LEVEL = "exploration"
BATCH = 1
TIMEOUT = 3000
REQUIRED_OBS = ["jac_entries_vs_stencil", "backend_dense", "backend_sparse", "modifier_cases", "jac_entries_vs_analytic"]
RULE = ("C01 networks with more ODE modifiers (0-3 dependency species incl. repeats, numeric and parameter factors) and "
        "thermal rows; non-trivial = has a repeated reactant / 3-body term / catalyst / modifier with >=2 dependencies / thermal "
        "row; distinct by sha1 of the abstract case")
ASSUMPTIONS = c01.ASSUMPTIONS + [
    "4-point central stencil with h = y_j/4 is exact for polynomials of degree <= 4; tolerance 1e-10 x (sum|terms| + row scale / y_j)",
]


def gen_cases(tier: str):
    rng = common.rng_for(ID)
    n = 36 if tier == "quick" else 500
    cases = []
    for i in range(n):
        r = random.Random(rng.getrandbits(64))
        c = c01.make_case(r, tier, thermal_p=0.3, mod_p=0.6, maxdeps=3, file_p=0.2, big=(tier == "thorough" and i % 6 == 0))
        if c.get("ode_modifier") and r.random() < 0.3:
            # a modifier term without dependency species (constant source term)
            k = r.choice(sorted(c["ode_modifier"]))
            c["ode_modifier"][k]["factors"].append(("0.125", 0.125))
            c["ode_modifier"][k]["reactants"].append([])
        cases.append(c)
    r = random.Random(rng.getrandbits(64))
    cases.append(c01.bundled_case("minimal", r))
    cases.append(c01.bundled_case("primordial", r))
    if tier == "thorough":
        cases.append(c01.bundled_case("deuterium", r, backends=["dense", "sparse"]))
        cases.append(c01.bundled_case("cloud", r, backends=["dense", "sparse", "odeint"]))
    return cases


def tags_of(case):
    t = c01.tags_of(case)
    for m in (case.get("ode_modifier") or {}).values():
        for d in m["reactants"]:
            t.add(f"modifier_{min(len(d), 3)}dep")
            if len(d) >= 2 and len(set(d)) < len(d):
                t.add("modifier_repeated_dep")
    return t


def run_case(case, ctx):
    obs, viol = Counter(), []
    backends = case.get("backends") or ["dense", "sparse", "cusparse", "odeint"]
    want = {"inject", "frozen_jac", "pass"}
    if not case.get("cooling") and not case.get("rates_depend_on_y"):
        # the Odeint functor recomputes k on every call: the stencil on it is "rate coefficients held fixed" only when k does
        # not depend on y (gas-phase networks).  Grain models make k a function of the mantle abundances, so for those the
        # Odeint matrix is compared with the analytic derivative only.
        want.add("numjac_unfrozen")
    out = S.run_backends(case, ctx, backends, want)
    usable = S.preamble(out, backends, viol, obs)
    if case.get("ode_modifier"):
        obs["modifier_cases"] += 1
    nre = len(case["net"]["reactions"])
    for be in usable:
        o = out[be]
        n, slots = o["n_eq"], o["slots"]
        for run in o["runs"]:
            frozen, numjac, k_rates = None, None, None
            for st, ev in run["events"]:
                name = st if isinstance(st, str) else st[0]
                if name == "freeze":
                    frozen = ev
                elif name == "rates":
                    k_rates = ev["k"]
                elif name == "numjac":
                    numjac = ev["J"]
                elif name in ("frozen_jac", "inject_jac", "jac"):
                    nsys = len(run["y"])
                    for s in range(nsys):
                        y = run["y"][s]
                        # matrix the compiled Jac produced, as dict (i,j)->value
                        if ev["layout"] in ("dense", "ublas"):
                            M = {(i, j): ev["J"][i * n + j] for i in range(n) for j in range(n)}
                        else:
                            nnz = len(ev["colvals"])
                            M, probs = S.csr_decode(ev["rowptrs"], ev["colvals"], ev["data"][s * nnz:(s + 1) * nnz], n)
                            for p in probs[:3]:
                                viol.append(violation("csr_malformed", f"{be}: {p}", backend=be))
                        # ---- oracle 1: stencil on the compiled, frozen Fex (cvode dense/sparse)
                        if name == "frozen_jac" and numjac is not None and frozen is not None:
                            kfro = frozen["k"]
                            ref, sc = S.ref_fex(case, slots, kfro, y, kc=(run.get("kc") or _kc(run)), npar=frozen.get("npar") or 1.0,
                                                gamma=frozen.get("gamma") or 1.0, n_eq=n) if not case.get("cooling") else (None, None)
                            J, Sc = S.ref_jac(case, slots, kfro, y, kc=_kc(run), npar=frozen.get("npar"), gamma=frozen.get("gamma"), n_eq=n)
                            rowscale = _rowscale(case, slots, kfro, y, _kc(run), frozen, n)
                            for i in range(n):
                                for j in range(n):
                                    a = M.get((i, j), 0.0)
                                    b = numjac[i * n + j]
                                    tol = 1e-10 * (Sc.get((i, j), 0.0) + rowscale[i] / max(abs(y[j]), 1e-300)) + 1e-300
                                    obs["jac_entries_vs_stencil"] += 1
                                    if not (abs(a - b) <= tol):
                                        viol.append(violation("jac_vs_stencil", f"{be}: J[{i}][{j}] = {a!r} but d(Fex_{i})/dy_{j} = {b!r}",
                                                              backend=be, i=i, j=j, jac=a, stencil=b, analytic=J.get((i, j), 0.0)))
                                        break
                                    if not (abs(J.get((i, j), 0.0) - b) <= tol):
                                        obs["oracle_disagreement"] += 1
                                else:
                                    continue
                                break
                        # ---- oracle 2: analytic derivative of the abstract network (inject / odeint pass)
                        elif name == "inject_jac" or (name == "jac" and be == "odeint"):
                            if name == "inject_jac":
                                k, kc, npar, gamma = st[1], case.get("kcs"), case.get("npar"), case.get("gamma")
                            else:
                                if case.get("cooling") or k_rates is None:
                                    continue
                                k, kc, npar, gamma = k_rates, None, None, None
                            J, Sc = S.ref_jac(case, slots, k, y, kc=kc, npar=npar, gamma=gamma, n_eq=n)
                            bad = False
                            for i in range(n):
                                for j in range(n):
                                    a = M.get((i, j), 0.0)
                                    obs["jac_entries_vs_analytic"] += 1
                                    if not close(a, J.get((i, j), 0.0), Sc.get((i, j), 0.0)):
                                        viol.append(violation("jac_vs_analytic", f"{be} sys{s}: J[{i}][{j}] = {a!r}, analytic {J.get((i, j), 0.0)!r}",
                                                              backend=be, i=i, j=j, jac=a, analytic=J.get((i, j), 0.0)))
                                        bad = True
                                        break
                                if bad:
                                    break
                            if name == "jac" and be == "odeint" and numjac is not None:
                                pass
            # odeint: numjac on the unfrozen functor (gas-phase networks: k does not depend on y)
            if be == "odeint" and numjac is not None:
                jac_ev = [ev for st, ev in run["events"] if ev["ev"] == "jac"]
                if jac_ev and k_rates is not None:
                    y = run["y"][0]
                    J, Sc = S.ref_jac(case, slots, k_rates, y, n_eq=n)
                    rowscale = _rowscale(case, slots, k_rates, y, None, {}, n)
                    for i in range(n):
                        for j in range(n):
                            a, b = jac_ev[0]["J"][i * n + j], numjac[i * n + j]
                            tol = 1e-10 * (Sc.get((i, j), 0.0) + rowscale[i] / max(abs(y[j]), 1e-300)) + 1e-300
                            obs["jac_entries_vs_stencil"] += 1
                            if not (abs(a - b) <= tol):
                                viol.append(violation("jac_vs_stencil", f"odeint: J[{i}][{j}] = {a!r} but d(Fex_{i})/dy_{j} = {b!r}", backend=be))
                                break
                        else:
                            continue
                        break
    tags = tags_of(case)
    if case.get("bundled"):
        tags.add("bundled_" + case["bundled"])
    for t in tags:
        obs["tag_" + t] += 1
    nontrivial = bool(tags & {"repeated_reactant", "three_body", "catalyst", "modifier_2dep", "modifier_3dep", "thermal"})
    smp = S.describe(case)
    smp["tags"] = sorted(tags)
    return {"status": "violated" if viol else "held", "violations": viol[:10], "obs": dict(obs), "nontrivial": nontrivial, "sample": smp}


def _kc(run):
    for st, ev in run["events"]:
        if ev["ev"] == "fex" and ev.get("kc"):
            return ev["kc"]
    return None


def _rowscale(case, slots, k, y, kc, frozen, n):
    try:
        _, sc = S.ref_fex(case, slots, k, y, kc=kc, npar=(frozen or {}).get("npar") or 1.0, gamma=(frozen or {}).get("gamma") or 2.0, n_eq=n)
    except Exception:
        sc = [1.0] * n
    return sc
