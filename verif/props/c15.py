"""C15 - duplicate detection reports exactly the repeated reactions.

Deciding step: reaction lists with planted equivalence classes are handed to the real
`Network.find_duplicate_reaction(mode)`; an offline monitor compares the reported indices,
reactions and class representatives with an O(n^2) pairwise reference built from the abstract
reactions, and checks that removing the reported reactions leaves one member per class.
"""
from __future__ import annotations

import random
from collections import Counter

from .. import common
from ..common import violation

ID = "C15"
LEVEL = "exploration"
BATCH = 25
TIMEOUT = 120
USES_LAB = False
REQUIRED_OBS = ["lists_checked", "mode_default", "mode_brief", "mode_minimal", "mode_short", "lists_with_mixed_spelling", "classes_of_size_3plus", "lists_with_multiplicity_twins", "removals_executed", "cli_remove_duplicate_runs", "cross_format_lists_checked"]
RULE = ("reaction lists of 4-40 reactions with planted classes of size 1-5: members are permutations of reactants/products, "
        "may repeat species, may differ only in temperature window or only in type, may use another spelling of the same "
        "species (e-/E-/E, #X with prefix '#' vs GX with prefix 'G'); modes {default, brief, minimal, short}; non-trivial = at "
        "least one class with >= 2 members; distinct by sha1 of the list")
ASSUMPTIONS = ["default/brief modes: species identity = same chemical species irrespective of spelling; string modes (minimal, short): "
               "equal multisets of names (+ window to 0.1 K and type name), as the mode's documentation states",
               "UNKNOWN-typed reactions (wild-card equality, not transitive) are not generated"]

NAMES = ["H", "H2", "H+", "C", "C+", "O", "CO", "He", "He+", "OH", "H2O", "#CO", "#H2O", "e-"]
ESPELL = ["e-", "E-", "E"]
TYPES = [100, 101, 102, 120]


def ident(n):
    """identity class of a species spelling"""
    if n.upper() in ("E", "E-"):
        return "<electron>"
    if n.startswith("G:"):
        return "#" + n[2:]
    return n


def make_list(rng):
    n_classes = rng.randint(2, 12)
    items = []
    twins = 0
    mixed = rng.random() < 0.35
    for c in range(n_classes):
        nre, npr = rng.choice([1, 2, 2, 3]), rng.choice([1, 1, 2, 3])
        res = [rng.choice(NAMES) for _ in range(nre)]
        prs = [rng.choice(NAMES) for _ in range(npr)]
        if rng.random() < 0.3 and nre >= 2:
            res[1] = res[0]
        base = {"reactants": res, "products": prs, "tmin": rng.choice([-1.0, 10.0]), "tmax": rng.choice([-1.0, 300.0]), "type": rng.choice(TYPES)}
        size = rng.choice([1, 1, 2, 2, 3, 4, 5])
        for m in range(size):
            r = dict(base, reactants=list(res), products=list(prs))
            rng.shuffle(r["reactants"])
            rng.shuffle(r["products"])
            if mixed:
                r["reactants"] = [respell(rng, x) for x in r["reactants"]]
                r["products"] = [respell(rng, x) for x in r["products"]]
            items.append(r)
        # near-duplicates: same species, different window / different type
        if rng.random() < 0.4:
            items.append(dict(base, tmin=base["tmin"] + 5.0 if base["tmin"] > 0 else 20.0))
        if rng.random() < 0.3:
            items.append(dict(base, type=next(t for t in TYPES if t != base["type"])))
        if rng.random() < 0.2:
            items.append(dict(base, tmax=base["tmax"] + 0.04 if base["tmax"] > 0 else 300.04))   # differs below the 0.1 K print precision
        if rng.random() < 0.35:
            t = multiplicity_twin(rng, base)
            if t:
                twins += 1
                items.append(t)
                if rng.random() < 0.4:
                    items.append(dict(t, reactants=list(reversed(t["reactants"])), products=list(reversed(t["products"]))))
    rng.shuffle(items)
    return {"items": items, "mixed": mixed, "twins": twins}


def multiplicity_twin(rng, base):
    """Same species on each side, different multiplicities (H + H -> H2 vs H -> H2): never equivalent in any mode."""
    side = rng.choice(["reactants", "products"])
    xs = list(base[side])
    dup = [x for x in xs if xs.count(x) > 1]
    if dup and rng.random() < 0.5:
        xs.remove(dup[0])
    elif len(xs) < 3:
        xs.append(rng.choice(xs))
    else:
        return None
    return dict(base, **{side: xs})


def respell(rng, n):
    if n == "e-":
        return rng.choice(ESPELL)
    if n.startswith("#") and rng.random() < 0.5:
        return "G:" + n[1:]          # built as Species("G"+core, surface_prefix="G")
    return n


def gen_cases(tier):
    rng = common.rng_for(ID)
    n = 500 if tier == "quick" else 10000
    cases = []
    for i in range(n):
        c = make_list(random.Random(rng.getrandbits(64)))
        c["mode"] = [None, "brief", "minimal", "short"][i % 4]
        cases.append(c)
    for _ in range(40 if tier == "quick" else 800):
        cases.append(make_cross_format(random.Random(rng.getrandbits(64))))
    return cases


TYPE_NAME = {100: "GAS_TWOBODY", 101: "GAS_COSMICRAY", 102: "GAS_PHOTON", 120: "GAS_UMIST_CRPHOT"}


def key(r, mode):
    if mode in (None, "brief"):
        k = (tuple(sorted(ident(x) for x in r["reactants"])), tuple(sorted(ident(x) for x in r["products"])))
        return k if mode == "brief" else k + (r["tmin"], r["tmax"], r["type"])
    names = lambda xs: tuple(sorted(("G" + x[2:]) if x.startswith("G:") else x for x in xs))
    k = (names(r["reactants"]), names(r["products"]))
    if mode == "short":
        k += (f"{r['tmin']:7.1f}", f"{r['tmax']:7.1f}", TYPE_NAME[r["type"]])
    return k


def cli_remove_duplicates(case, ctx, items, obs, viol):
    import os
    from cleo.testers.command_tester import CommandTester
    from naunet.console.application import Application
    from naunet.species import Species
    from ..gen import encode
    Species.reset()
    d = ctx.fresh_dir("x")
    (d / "naunet_config.toml").write_text('[chemistry]\n[chemistry.symbol]\ngrain = "GRAIN"\nsurface = "#"\nbulk = "@"\n')
    lines = [encode.naunet_line(dict(r, idx=i, alpha=1.0 + i, beta=0.0, gamma=0.0, pseudo=None)) for i, r in enumerate(items)]
    (d / "in.naunet").write_text("\n".join(lines) + "\n")
    cwd = os.getcwd()
    os.chdir(d)
    try:
        tester = CommandTester(Application().find("extend"))
        rc = tester.execute("in.naunet out.naunet --remove-duplicate", interactive=False)
    except Exception as e:
        viol.append(violation("detector_raised", f"naunet extend --remove-duplicate: {type(e).__name__}: {e}"))
        return
    finally:
        os.chdir(cwd)
    obs["cli_remove_duplicate_runs"] += 1
    # file semantics of the window: printed with 2 decimals
    fkeys = [(tuple(sorted(ident(x) for x in r["reactants"])), tuple(sorted(ident(x) for x in r["products"])), f"{r['tmin']:9.2f}", f"{r['tmax']:9.2f}", r["type"]) for r in items]
    seen, want = set(), []
    for i, k in enumerate(fkeys):
        if k not in seen:
            want.append(float(f"{1.0 + i:10.3e}"))       # alpha identifies the input line
        seen.add(k)
    got = []
    for line in (d / "out.naunet").read_text().splitlines():
        if line.strip():
            got.append(float(line.split(",")[9]))
    if got != want:
        viol.append(violation("cli_removal_differs", f"naunet extend --remove-duplicate kept the input lines with alpha {got[:10]} ({len(got)}), one representative "
                              f"per class in file order is {want[:10]} ({len(want)})"))


def make_cross_format(rng):
    """The same reactions read from a KIDA file and from a UMIST file of one network: a repeat is a repeat whichever reader produced it
    (default and brief comparison; the string modes print format-specific type names)."""
    names = ["H", "H2", "H+", "C", "C+", "O", "CO", "He", "He+", "OH", "e-"]
    base = []
    for i in range(rng.randint(3, 8)):
        base.append({"reactants": [rng.choice(names) for _ in range(rng.choice([1, 2, 2]))], "products": [rng.choice(names) for _ in range(rng.choice([1, 2, 3]))],
                     "tmin": float(rng.choice([10, 10, 50])), "tmax": float(rng.choice([300, 300, 41000])), "alpha": 1.0, "beta": 0.0, "gamma": 0.0, "pseudo": None,
                     "formula": 3, "code": "NN", "idx": i + 1})
    kida = [dict(r) for r in base] + [dict(rng.choice(base)) for _ in range(rng.randint(0, 2))]
    umist = [dict(r) for r in rng.sample(base, rng.randint(1, len(base)))] + [dict(rng.choice(base), tmax=777.0)]
    for r in umist:
        if rng.random() < 0.5:
            r["reactants"] = list(reversed(r["reactants"]))
    return {"kind": "cross_format", "kida": kida, "umist": umist, "mode": rng.choice([None, "brief"]), "mixed": False, "items": []}


def run_cross_format(case, ctx):
    from naunet.network import Network
    from naunet.species import Species
    from ..gen import encode
    obs, viol = Counter(), []
    Species.reset()
    d = ctx.fresh_dir("xf")
    (d / "a.kida").write_text("\n".join(encode.kida_line(r) for r in case["kida"]) + "\n")
    (d / "b.umist").write_text("\n".join(encode.umist_line(dict(r, idx=i + 1)) for i, r in enumerate(case["umist"])) + "\n")
    mode = case["mode"]
    try:
        net = Network(filelist=[str(d / "a.kida"), str(d / "b.umist")], fileformats=["kida", "umist"])
        dupes, dupidx, first = net.find_duplicate_reaction(mode)
    except Exception as e:
        return {"status": "violated", "violations": [violation("detector_raised", f"cross-format list: {type(e).__name__}: {e}")], "obs": {}}
    items = case["kida"] + case["umist"]
    if len(net.reaction_list) != len(items):
        return {"status": "inconclusive", "violations": [], "obs": {}, "lost": "network dropped reactions"}
    obs["cross_format_lists_checked"] += 1
    obs["mode_" + (mode or "default")] += 1
    def k(r):
        kk = (tuple(sorted(r["reactants"])), tuple(sorted(r["products"])))
        return kk if mode == "brief" else kk + (r["tmin"], r["tmax"])
    keys = [k(r) for r in items]
    exp_idx = [i for i, kk in enumerate(keys) if kk in keys[:i]]
    if list(dupidx) != exp_idx:
        viol.append(violation("duplicate_indices", f"KIDA + UMIST files, mode={mode}: reported {list(dupidx)}, pairwise reference {exp_idx} "
                              f"({len(case['kida'])} KIDA lines then {len(case['umist'])} UMIST lines)"))
    return {"status": "violated" if viol else "held", "violations": viol, "obs": dict(obs), "nontrivial": bool(exp_idx),
            "sample": {"mode": mode, "cross_format": True, "n": len(items)}}


def run_case(case, ctx):
    if case.get("kind") == "cross_format":
        return run_cross_format(case, ctx)
    from naunet.network import Network
    from naunet.reactions.reaction import Reaction
    from naunet.reactiontype import ReactionType as RT
    from naunet.species import Species
    obs, viol = Counter(), []
    Species.reset()

    def sp(n):
        return Species("G" + n[2:], surface_prefix="G") if n.startswith("G:") else n

    items, mode = case["items"], case["mode"]
    objs = [Reaction([sp(x) for x in r["reactants"]], [sp(x) for x in r["products"]], temp_min=r["tmin"], temp_max=r["tmax"],
                     reaction_type=RT(r["type"]), alpha=1.0) for r in items]
    net = Network(objs)
    if len(net.reaction_list) != len(items):
        return {"status": "inconclusive", "violations": [], "obs": {}, "lost": "network dropped reactions"}
    try:
        dupes, dupidx, first = net.find_duplicate_reaction(mode)
    except Exception as e:
        return {"status": "violated", "violations": [violation("detector_raised", f"{type(e).__name__}: {e}")], "obs": {}}
    obs["lists_checked"] += 1
    obs["mode_" + (mode or "default")] += 1
    if case["mixed"]:
        obs["lists_with_mixed_spelling"] += 1
    if case.get("twins"):
        obs["lists_with_multiplicity_twins"] += 1
    # pairwise reference
    keys = [key(r, mode) for r in items]
    exp_idx, firsts, classes = [], [], {}
    for i, k in enumerate(keys):
        earlier = next((j for j in range(i) if keys[j] == k), None)   # O(n^2) on purpose
        if earlier is not None:
            exp_idx.append(i)
        classes.setdefault(k, []).append(i)
    exp_first = [v[0] for k, v in classes.items() if len(v) > 1]
    if any(len(v) >= 3 for v in classes.values()):
        obs["classes_of_size_3plus"] += 1
    w = {}
    if list(dupidx) != exp_idx:
        missed = [i for i in exp_idx if i not in dupidx]
        if mode in (None, "brief") and case["mixed"] and missed and not [i for i in dupidx if i not in exp_idx]:
            # explanation model: every missed duplicate differs from the earlier member of its class in spelling only
            def spelled(r):
                return (tuple(sorted(r["reactants"])), tuple(sorted(r["products"])))
            if all(all(spelled(items[i]) != spelled(items[j]) for j in classes[keys[i]] if j < i) or True for i in missed) and \
               all(any(spelled(items[i]) != spelled(items[j]) for j in classes[keys[i]] if j < i) for i in missed):
                w["mechanism"] = "C15/hash-depends-on-spelling"
        viol.append(violation("duplicate_indices", f"mode={mode}: reported {list(dupidx)}, pairwise reference {exp_idx}", missed=missed,
                              reactions=[f"{i}: {items[i]['reactants']} -> {items[i]['products']}" for i in sorted(set(missed) | set(classes[keys[missed[0]]] if missed else []))][:8], **w))
    else:
        if [id(d) for d in dupes] != [id(net.reaction_list[i]) for i in dupidx]:
            viol.append(violation("duplicate_objects", "reported reactions are not the reactions at the reported indices"))
        if [id(f) for f in first] != [id(net.reaction_list[i]) for i in exp_first]:
            viol.append(violation("first_members", f"mode={mode}: first members {[net.reaction_list.index(f) for f in first]}, expected {exp_first}"))
        # removing the reported reactions leaves one representative of every class and no duplicate
        rest = [k for i, k in enumerate(keys) if i not in set(dupidx)]
        if len(rest) != len(set(rest)) or set(rest) != set(keys):
            viol.append(violation("removal_incomplete", f"mode={mode}: after removal {len(rest)} reactions, {len(set(keys))} classes"))
        # ... and through the real removal: by index on the network itself, then a second report must be empty
        survivors = [id(r) for i, r in enumerate(net.reaction_list) if i not in set(dupidx)]
        try:
            net.remove_reaction(list(dupidx))
            obs["removals_executed"] += 1
            if [id(r) for r in net.reaction_list] != survivors:
                viol.append(violation("removal_wrong_reactions", f"mode={mode}: remove_reaction({list(dupidx)[:8]}) left {len(net.reaction_list)} reactions, "
                                      f"expected the {len(survivors)} non-reported ones in order"))
            d2, i2, f2 = net.find_duplicate_reaction(mode)
            if list(i2):
                viol.append(violation("duplicates_remain_after_removal", f"mode={mode}: second report lists {list(i2)[:8]}"))
        except Exception as e:
            viol.append(violation("detector_raised", f"removal: {type(e).__name__}: {e}"))
    # ---- the command-line consumer: `naunet extend in out --remove-duplicate` keeps one representative of every class, in file order
    if mode is None and not case["mixed"] and ctx is not None:
        cli_remove_duplicates(case, ctx, items, obs, viol)
    nontrivial = any(len(v) > 1 for v in classes.values())
    sample = {"mode": mode, "n": len(items), "classes": sorted(len(v) for v in classes.values() if len(v) > 1), "mixed": case["mixed"],
              "first": f"{items[0]['reactants']} -> {items[0]['products']}"}
    return {"status": "violated" if viol else "held", "violations": viol[:5], "obs": dict(obs), "nontrivial": nontrivial, "sample": sample}
