"""C03 - CSR / dense / Odeint / cusparse Jacobian layouts agree, are well-formed and in bounds.

Deciding step: the four renderings of one Network object are compiled with ASan+UBSan(bounds)
against shims whose buffers have exactly the sizes the generated headers declare, and executed;
the CSR arrays *as filled by the generated code* are validated, decoded and compared bit for bit
with the dense / ublas assignments; jac_pattern.dat is compared with the stored entries.
"""
from __future__ import annotations

import math
import random
from collections import Counter

from .. import common
from ..common import violation
from ..gen import chem
from . import c01
from . import structural as S

ID = "C03"
LEVEL = "exploration"
BATCH = 1
TIMEOUT = 3000
REQUIRED_OBS = ["csr_validated", "entries_cross_compared", "pattern_files_checked", "backend_dense", "backend_sparse",
                "backend_cusparse", "backend_odeint", "tag_empty_network"]
RULE = ("C01 networks plus the empty network, networks of isolated species only, with/without the thermal equation, all "
        "with jac_pattern output; non-trivial = NNZ > 0 and at least one structurally zero entry; distinct by sparsity pattern "
        "hash + case hash")
ASSUMPTIONS = c01.ASSUMPTIONS + [
    "ASan red zones (1 KiB) + UBSan bounds + bounds-checked shim accessors; far out-of-bounds heap accesses beyond the red zone are not seen",
    "bit-exact comparison across back-ends relies on -O0 -ffp-contract=off",
]


def gen_cases(tier):
    rng = common.rng_for(ID)
    n = 30 if tier == "quick" else 400
    cases = []
    for i in range(n):
        r = random.Random(rng.getrandbits(64))
        c = c01.make_case(r, tier, thermal_p=0.35, mod_p=0.25, maxdeps=2, file_p=(1.0 if i % 5 == 3 else 0.2), big=(tier == "thorough" and i % 5 == 0))
        if c["net"]["reactions"] and r.random() < 0.3:
            # rate modifiers on reactions whose file index is far from their position in the rate array: the override must
            # still address k[position]
            base = r.choice([2, 50, 5000])
            for j, rc in enumerate(c["net"]["reactions"]):
                rc["idx"] = base + 3 * j
            c["indexed"] = True
            keys = r.sample([rc["idx"] for rc in c["net"]["reactions"]], min(2, len(c["net"]["reactions"])))
            c["rate_modifier"] = {str(k): [repr(v), v] for k, v in zip(keys, chem.distinct_alphas(r, len(keys)))}
        cases.append(c)
    # the empty network (NEQUATIONS forced to 1, dummy reaction, NNZ 0)
    cases.append({"net": {"species": [], "reactions": [], "required": []}, "alphas": [], "entry": "api",
                  "ys": [{"__TGAS__": 1e4}], "ks": [[1.25]], "special": "empty"})
    # isolated species only (no reactions), with and without thermal
    for thermal in (False, True):
        r = random.Random(rng.getrandbits(64))
        pool = chem.species_pool(r, 4)
        net = {"species": pool, "reactions": [], "required": [s["name"] for s in pool]}
        c = {"net": net, "alphas": [], "entry": "api", "special": "isolated_only", "ks": [[1.25]]}
        if thermal:
            c["cooling"] = c01.add_thermal(r, net)
            c["kcs"] = chem.distinct_alphas(r, len(c["cooling"]))
            c["npar"], c["gamma"] = 1.0, 1.5
        yv = {s["name"]: 0.5 + r.random() for s in net["species"]}
        yv["__TGAS__"] = 2e4
        c["ys"] = [yv]
        cases.append(c)
    r = random.Random(rng.getrandbits(64))
    cases.append(c01.bundled_case("minimal", r))
    cases.append(c01.bundled_case("primordial", r))
    if tier == "thorough":
        cases.append(c01.bundled_case("deuterium", r, backends=["dense", "sparse"]))
        cases.append(c01.bundled_case("cloud", r, backends=["dense", "sparse", "odeint"]))
    return cases


def same(a, b):
    if isinstance(a, float) and isinstance(b, float) and math.isnan(a) and math.isnan(b):
        return True
    return a == b


def run_case(case, ctx):
    obs, viol = Counter(), []
    backends = case.get("backends") or ["dense", "sparse", "cusparse", "odeint"]
    out = S.run_backends(case, ctx, backends, {"pass", "pattern"})
    usable = S.preamble(out, backends, viol, obs)
    mats = {}      # backend -> list over points of dict (i,j)->value (system 0)
    stored = {}    # backend -> set of stored (i,j)
    n = None
    for be in usable:
        o = out[be]
        n = o["n_eq"]
        mac = o["macros"]
        mats[be] = []
        for run in o["runs"]:
            for st, ev in run["events"]:
                if ev["ev"] != "jac":
                    continue
                if ev["layout"] in ("dense", "ublas"):
                    J = ev["J"]
                    if len(J) != n * n:
                        viol.append(violation("jac_size", f"{be}: {len(J)} entries for n={n}"))
                        continue
                    # the driver pre-fills with a NaN sentinel: any NaN left is an entry Jac never set (dense/odeint zero first)
                    M = {(i, j): J[i * n + j] for i in range(n) for j in range(n)}
                    if any(isinstance(v, float) and math.isnan(v) for v in J):
                        viol.append(violation("unassigned_entry", f"{be}: NaN sentinel left in the matrix", backend=be))
                    mats[be].append(M)
                    stored[be] = {ij for ij, v in M.items() if v != 0.0}
                else:
                    nnz = len(ev["colvals"])
                    if nnz != mac.get("NNZ"):
                        viol.append(violation("nnz_macro", f"{be}: NNZ macro {mac.get('NNZ')} but {nnz} column indices", backend=be))
                    nsys = len(run["y"])
                    if len(ev["data"]) != nnz * nsys:
                        viol.append(violation("data_size", f"{be}: data has {len(ev['data'])} values, expected {nnz}x{nsys}", backend=be))
                    M, probs = S.csr_decode(ev["rowptrs"], ev["colvals"], ev["data"][:nnz], n)
                    obs["csr_validated"] += 1
                    for p in probs[:4]:
                        viol.append(violation("csr_malformed", f"{be}: {p}", backend=be, rowptrs=ev["rowptrs"], colvals=ev["colvals"][:60]))
                    if any(isinstance(v, float) and math.isnan(v) for v in ev["data"]):
                        viol.append(violation("unassigned_entry", f"{be}: NaN sentinel left in data[]", backend=be))
                    mats[be].append(M)
                    stored[be] = set(M)
                    for s in range(1, nsys):
                        # other systems: same pattern, own values (checked against mass action by C01/C02)
                        obs["cusparse_extra_systems"] += 1
        # pattern file
        if "pattern" in o:
            obs["pattern_files_checked"] += 1
            pat = o["pattern"]
            cells = {(i, j) for i, row in enumerate(pat) for j, v in enumerate(row) if v == 1}
            shape_ok = len(pat) == n and all(len(r) == n for r in pat)
            if not shape_ok:
                viol.append(violation("pattern_shape", f"{be}: jac_pattern.dat is {len(pat)}x{len(pat[0]) if pat else 0}, n={n}"))
            if be in ("sparse", "cusparse") and be in stored and cells != stored[be]:
                viol.append(violation("pattern_mismatch", f"{be}: pattern cells differ from stored CSR entries: only-in-pattern "
                                      f"{sorted(cells - stored[be])[:5]} only-in-csr {sorted(stored[be] - cells)[:5]}", backend=be))
    # cross-layout: same value at the same (row, col), same set of assigned entries
    if "dense" in mats:
        for be in ("sparse", "cusparse", "odeint"):
            if be not in mats:
                continue
            for pi, (A, B) in enumerate(zip(mats["dense"], mats[be])):
                for i in range(n):
                    for j in range(n):
                        a = A.get((i, j), 0.0)
                        b = B.get((i, j), 0.0)
                        obs["entries_cross_compared"] += 1
                        if not same(a, b):
                            viol.append(violation("layout_disagreement", f"dense J[{i}][{j}]={a!r} but {be} has {b!r}", backend=be, i=i, j=j))
                            break
                    else:
                        continue
                    break
                if be != "odeint":
                    # CSR must hold exactly the entries the dense variant assigns (dense assigns what is != "0.0" textually;
                    # numerically zero stored entries are legitimate, so compare on the non-zero ones)
                    nz_dense = {ij for ij, v in A.items() if v != 0.0}
                    if not nz_dense <= set(B):
                        viol.append(violation("entry_missing_from_csr", f"{be}: dense non-zeros {sorted(nz_dense - set(B))[:5]} not stored", backend=be))
    tags = c01.tags_of(case) if case.get("special") != "empty" else {"empty_network"}
    if case.get("special"):
        tags.add(case["special"] if case["special"] != "empty" else "empty_network")
    if case.get("bundled"):
        tags.add("bundled_" + case["bundled"])
    for t in tags:
        obs["tag_" + t] += 1
    pat = tuple(sorted(stored.get("sparse", ())))
    obs["nnz_total"] += len(pat)
    nontrivial = bool(n and 0 < len(pat) < n * n)
    smp = S.describe(case)
    smp.update(tags=sorted(tags), n_eq=n, nnz=len(pat), pattern_hash=common.case_id(pat))
    return {"status": "violated" if viol else "held", "violations": viol[:10], "obs": dict(obs), "nontrivial": nontrivial, "sample": smp}


def aggregate(results, cases):
    pats = {r.get("sample", {}).get("pattern_hash") for r in results if r.get("sample")}
    return {"distinct_sparsity_patterns": len(pats)}
