"""C05 - gas-phase rate coefficients follow each database's published rate law.

Deciding step: reaction files of every gas-phase (format, type) with signed / zero / integer /
extreme coefficients are read by the real naunet, rendered, and the emitted `EvalRates` is
*compiled and executed* (UBSan on) at several physical parameter points; every k[i] is compared
with an independent implementation of the published law.  A rates unit that does not compile
is the violation "not valid C".
"""
from __future__ import annotations

import math
import random
import re
from collections import Counter

from .. import common
from ..common import close, violation
from ..cxx import lab
from ..gen import chem, encode
from ..ref import ratelaws
from . import c07

ID = "C05"
LEVEL = "exploration"
BATCH = 1
TIMEOUT = 600
REQUIRED_OBS = ["rates_compared", "fmt_kida", "fmt_umist", "fmt_leeds", "fmt_uclchem", "fmt_naunet", "negative_gamma_reactions",
                "shielded_rates_compared"]
RULE = ("per case one file of 12-30 reactions of one format covering its gas-phase types (KIDA formulae 1-5, all 13 UMIST codes, "
        "Leeds 1-5/11/12/15-19, UCLCHEM none/CRP/CRPHOT/PHOTON incl. the CO special case, native 100/101/102/110/111/120) with "
        "coefficients from {0, +-integers, +-1e-300..1e300, random}; 4 physical parameter points (Tgas 2..9000 K, Av 0..50, zeta, "
        "omega in [0,1), G0, zeta_cr/xr); non-trivial = file contains a negative or zero coefficient; distinct by file text")
ASSUMPTIONS = ["laws as printed in Wakelam+2012, McElroy+2013, Walsh+2015, Holdship+2017 and naunet's README; IEEE semantics via numpy",
               "tolerance 1e-11 x sum|terms|; shielded rates use the shielding factor returned by the same compiled helper"]

SHIELD = {"H2": "L96Table", "CO": "V09Table", "N2": "L13Table"}


def coeff(rng, kind="any"):
    k = rng.random()
    if k < 0.12:
        return 0.0
    if k < 0.24:
        return float(rng.randint(1, 9)) * rng.choice([1, -1])
    if k < 0.34:
        return rng.choice([1e-300, 1e300, 1e-99, 9.9e99, 1e-30, 1e30]) * rng.choice([1, -1])
    v = rng.uniform(0.1, 9.99) * 10 ** rng.randint(-18, 4)
    return -v if rng.random() < 0.3 else v


def fit_e103(v):
    """value representable in a Fortran e10.3 column"""
    if v != 0 and (abs(v) >= 1e100 or abs(v) < 1e-99):
        v = math.copysign(1.234e-10, v)
    return float(f"{v:10.3e}")


def make_case(rng, fmt):
    pool = [s for s in chem.species_pool(rng, 12, ions=True, labels=False) if not s["electron"] or True]
    names = [s["name"] for s in pool if len(s["name"]) <= 9]
    n = rng.randint(12, 30)
    reacs = []
    for i in range(n):
        r = {"reactants": [rng.choice(names) for _ in range(rng.choice([1, 2]))], "products": [rng.choice(names) for _ in range(rng.choice([1, 2, 3]))],
             "idx": i + 1, "alpha": coeff(rng), "beta": coeff(rng), "gamma": coeff(rng), "pseudo": None}
        # stratum (seed C05-h): unit / vanishing parameter combinations, where an emitter may be tempted to drop a factor
        if i % 8 == 3:
            r["alpha"], r["beta"], r["gamma"] = 1.0, 0.0, 0.0
        elif i % 8 == 6:
            r["alpha"] = 1.0
            r[rng.choice(["beta", "gamma"])] = 0.0
        if fmt == "kida":
            r["formula"] = rng.randint(1, 5)
            r["pseudo"] = {1: "CR", 2: "Photon"}.get(r["formula"])
            r["tmin"], r["tmax"] = -9999.0, 9999.0
            for k in ("alpha", "beta", "gamma"):
                r[k] = fit_e103(r[k])
        elif fmt == "umist":
            r["code"] = rng.choice(sorted(c07.UMIST_CODE))
            r["pseudo"] = {"CP": "CRP", "CR": "CRPHOT", "PH": "PHOTON"}.get(r["code"])
            r["reactants"] = r["reactants"][:1] if r["pseudo"] else r["reactants"]
            r["tmin"], r["tmax"] = -9999.0, 9999.0
        elif fmt == "leeds":
            r["rtype"] = rng.choice([1, 1, 2, 3, 4, 4, 5, 11, 12, 15, 17, 19])
            r["pseudo"] = {2: "CRP", 3: "CRPHOT", 4: "PHOTON", 5: "XRAY", 11: "CRPHOT", 12: "PHOTON"}.get(r["rtype"])
            a = abs(r["alpha"])
            r["alpha"] = float(f"{min(max(a, 1e-99), 9.99e99):.2E}") if a else 0.0
            r["beta"] = round(rng.choice([0.0, rng.uniform(-5, 5), -12345.67, 3.0, -2.0]), 2)
            r["gamma"] = round(rng.choice([0.0, rng.uniform(0, 3e4), -1234567.8, -3.0, 7.0]), 1)
            r["tmin"], r["tmax"] = 0.0, 0.0
            if r["rtype"] in (4, 12) and rng.random() < 0.5:
                # shielded species: H2, CO, N2 (gas: type 4; ice: type 12)
                s = rng.choice(["H2", "CO", "N2"])
                r["reactants"] = [("G" + s) if r["rtype"] == 12 else s]
                if r["rtype"] == 12:
                    r["products"] = [s]      # photodesorption-like: the gas-phase counterpart is part of the network
                r["shielded"] = s
            elif r["rtype"] in (11, 12):
                r["reactants"] = ["GH2O"]
            elif r["rtype"] == 4 and rng.random() < 0.4:
                # look-alikes of the self-shielded species H2 / CO / N2: the plain photo law applies to them
                r["reactants"] = [rng.choice(["H", "C", "O", "N", "CO2", "HCO", "H2O", "N2H+", "H2+", "C2", "NH2"])]
            # the Leeds photo law applies self-shielding whenever the (first) reactant is H2, CO or N2 - also when drawn at random
            if r["rtype"] == 4 and r["reactants"][0] in ("H2", "CO", "N2"):
                r["shielded"] = r["reactants"][0]
        elif fmt == "uclchem":
            r["marker"] = rng.choice([None, None, "CRP", "CRPHOT", "PHOTON"])
            r["reactants"] = r["reactants"][:1] if r["marker"] else r["reactants"]
            r["products"] = r["products"][:3]
            r["tmin"], r["tmax"] = -9999.0, 99999.0
            if r["marker"] == "PHOTON" and rng.random() < 0.3:
                r["reactants"] = ["CO"]
                r["products"] = ["C", "O"]
                r["co_special"] = True
            elif r["marker"] == "PHOTON" and rng.random() < 0.4:
                # look-alikes of the self-shielded species: only CO itself is special
                r["reactants"] = [rng.choice(["C", "O", "CO2", "HCO", "C2", "OH", "CO+"])]
        elif fmt == "naunet":
            r["type"] = rng.choice([100, 100, 101, 102, 110, 111, 120])
            r["pseudo"] = {101: "CR", 102: "PHOTON", 120: "CRPHOT"}.get(r["type"])
            r["tmin"], r["tmax"] = -1.0, -1.0
            for k in ("alpha", "beta", "gamma"):
                r[k] = fit_e103(r[k])
        reacs.append(r)
    if fmt == "uclchem":
        # UCLCHEM-format networks always carry H2 (its shielding is a registered derived quantity)
        reacs.append({"reactants": ["H", "H"], "products": ["H2"], "idx": n + 1, "alpha": 1e-17, "beta": 0.5, "gamma": 0.0, "marker": None,
                      "tmin": -9999.0, "tmax": 99999.0})
    points = []
    for _ in range(4):
        points.append({"Tgas": rng.choice([2.0, 10.0, 50.0, 300.0, 1e3, 8999.0, rng.uniform(5, 5000)]), "Av": rng.choice([0.0, 0.5, 3.0, 50.0, rng.uniform(0, 10)]),
                       "zeta": 10 ** rng.uniform(-18, -14), "omega": rng.choice([0.0, 0.5, 0.6, 0.99]), "G0": rng.choice([1.0, 0.0, 1e3, rng.uniform(0.1, 10)]),
                       "zeta_cr": 10 ** rng.uniform(-18, -15), "zeta_xr": rng.choice([0.0, 1e-17]), "Tdust": 15.0, "nH": 1e4})
    return {"format": fmt, "reactions": reacs, "points": points}


FORMATS = ["kida", "umist", "leeds", "uclchem", "naunet"]


def gen_cases(tier):
    rng = common.rng_for(ID)
    n = 40 if tier == "quick" else 600
    return [make_case(random.Random(rng.getrandbits(64)), FORMATS[i % 5]) for i in range(n)]


def run_case(case, ctx):
    from naunet.network import Network
    from naunet.species import Species
    obs, viol = Counter(), []
    fmt = case["format"]
    work = ctx.fresh_dir("r")
    lines = [encode.LINE[fmt](r) for r in case["reactions"]]
    p = work / f"net.{fmt}"
    p.write_text("\n".join(lines) + "\n")
    Species.reset()
    obs["fmt_" + fmt] += 1
    sample = {"format": fmt, "lines": lines[:3], "n": len(lines)}
    neg = sum(1 for r in case["reactions"] if r["gamma"] < 0)
    obs["negative_gamma_reactions"] += neg
    nontrivial = any(r[k] <= 0 for r in case["reactions"] for k in ("alpha", "beta", "gamma"))
    try:
        kw = {}
        if fmt == "leeds":
            kw["shielding"] = dict(SHIELD)
        if fmt == "uclchem":
            kw["shielding"] = {"CO": "VB88Table"}
        net = Network(filelist=str(p), fileformats=fmt, **kw)
        proj = work / "proj"
        net.to_code(method="dense", path=str(proj))
    except Exception as e:
        import traceback
        viol.append(violation("generator_raised", f"{fmt}: {type(e).__name__}: {e}", trace=traceback.format_exc()[-1200:]))
        return {"status": "violated", "violations": viol, "obs": dict(obs), "nontrivial": nontrivial, "sample": sample}
    rates_txt = (proj / "src" / "naunet_rates.cpp").read_text()
    try:
        b = lab.build_cvode(proj, work / "b", "dense", ctx.cache, core_only=True)
    except lab.BuildError as e:
        w = {}
        fused = re.findall(r"k\[\d+\] = [^;]*(?:--|\+\+|\+-|-\+)[^;]*;", rates_txt)
        if e.unit == "naunet_rates.cpp" and fused and fmt == "naunet":
            w["mechanism"] = "C05/native-rateexpr-not-beautified"
        viol.append(violation("emitted_rate_not_valid_c", f"{fmt}: {e.unit}: {'; '.join(e.diagnostics()[:2])}", fused=fused[:3], **w))
        return {"status": "violated", "violations": viol, "obs": dict(obs), "nontrivial": nontrivial, "sample": sample}
    macros = lab.parse_macros(proj)
    n_eq = macros["NSPECIES"]
    cmds = ["idx"]
    for pt in case["points"]:
        for k, v in pt.items():
            cmds.append(f"set {k} {lab.fmt(v)}")
        cmds.append("y " + " ".join("1.0" for _ in range(n_eq)))
        cmds.append("rates")
        h2col = 0.5 * 1.59e21 * pt["Av"]
        for ri, r in enumerate(case["reactions"]):
            if r.get("shielded"):
                s = r["shielded"]
                spcol = h2col if s == "H2" else 1e-5 * h2col
                cmds.append(f"shield @IDX_{s}I@ {lab.fmt(h2col)} {lab.fmt(spcol)} {lab.fmt(pt['Tgas'])} 0")
            if r.get("co_special"):
                cmds.append(f"shield @IDX_COI@ {lab.fmt(h2col)} {lab.fmt(1e-5 * h2col)} {lab.fmt(pt['Tgas'])} 1")
                cmds.append(f"charwl {lab.fmt(h2col)} {lab.fmt(1e-5 * h2col)}")
    # resolve IDX placeholders from the macro text (values are small integers)
    cmds = [re.sub(r"@IDX_(\w+)@", lambda m: str(macros["IDX"].get(m.group(1), -1)), c) for c in cmds]
    # grain scattering needs lambdabar first: two passes for the CO special case
    rr = lab.run_driver(b["exe"], cmds, work / "b")
    if rr.sanitizer_reports or rr.crashed():
        obs["sanitizer_reports"] += len(rr.sanitizer_reports)
        viol.append(violation("sanitizer_report_or_crash", f"{fmt}: {(rr.sanitizer_reports or ['driver crashed'])[0][:300]}", stderr=rr.stderr[-1500:]))
        return {"status": "violated", "violations": viol, "obs": dict(obs), "nontrivial": nontrivial, "sample": sample}
    evs = [e for e in rr.events if e["ev"] in ("rates", "shield", "charwl")]
    pos = 0
    second = []
    for pi, pt in enumerate(case["points"]):
        rates = evs[pos]
        pos += 1
        k = rates["k"]
        if len(k) != len(case["reactions"]):
            viol.append(violation("rate_count", f"{fmt}: {len(k)} rates for {len(case['reactions'])} reactions"))
            break
        for ri, r in enumerate(case["reactions"]):
            factor = None
            if r.get("shielded"):
                factor = evs[pos]["value"]
                pos += 1
            if r.get("co_special"):
                sh = evs[pos]["value"]
                lam = evs[pos + 1]["value"]
                pos += 2
                second.append((pi, ri, sh, lam))
                continue
            ref, scale = ratelaws.law(fmt, r, pt)
            if factor is not None:
                ref, scale = float(ratelaws.f8(ref) * ratelaws.f8(factor)), abs(float(ratelaws.f8(scale) * ratelaws.f8(factor)))
                obs["shielded_rates_compared"] += 1
            obs["rates_compared"] += 1
            if not close(k[ri], ref, scale, rel=1e-11):
                viol.append(violation("rate_law_mismatch", f"{fmt} reaction {ri} ({lines[ri].strip()[:80]}): k={k[ri]!r}, law gives {ref!r} at {pt}",
                                      format=fmt, reaction=r, point=pt, observed=k[ri], reference=ref))
    if second and not viol:
        cmds2 = []
        for pi, ri, sh, lam in second:
            cmds2.append(f"gscat {lab.fmt(case['points'][pi]['Av'])} {lab.fmt(lam)}")
        r2 = lab.run_driver(b["exe"], cmds2, work / "b")
        gs = r2.by_ev("gscat")
        k_by_point = [e["k"] for e in rr.by_ev("rates")]
        for (pi, ri, sh, lam), g in zip(second, gs):
            pt = case["points"][pi]
            ref = float(ratelaws.f8(2.0e-10) * ratelaws.f8(pt["G0"]) * ratelaws.f8(sh) * ratelaws.f8(g["value"]) / ratelaws.f8(1.7))
            obs["rates_compared"] += 1
            obs["shielded_rates_compared"] += 1
            if not close(k_by_point[pi][ri], ref, abs(ref), rel=1e-11):
                viol.append(violation("rate_law_mismatch", f"uclchem CO photodissociation: k={k_by_point[pi][ri]!r}, law gives {ref!r}", point=pt))
    return {"status": "violated" if viol else "held", "violations": viol[:8], "obs": dict(obs), "nontrivial": nontrivial, "sample": sample}
