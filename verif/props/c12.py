"""C12 - KROME rate expressions keep their value when translated from Fortran to C.

Deciding step: expressions derived from the translator's own Fortran grammar (plus the rate
expressions of the bundled KROME networks and out-of-grammar probes) are put into KROME network
files, read and rendered by the real naunet, and the emitted EvalRates is compiled (UBSan on) and
executed; the reference values come from a gfortran-compiled program evaluating the *original*
Fortran text with double-precision defaults.  gfortran is used purely as an executable
semantics of Fortran.
"""
from __future__ import annotations

import math
import random
import re
import subprocess
from collections import Counter
from pathlib import Path

from .. import common
from ..common import close, violation
from ..cxx import lab

ID = "C12"
LEVEL = "exploration"
BATCH = 1
TIMEOUT = 900
REQUIRED_OBS = ["expressions_compared", "expr_with_power", "expr_with_function", "expr_with_abundance_ref", "expr_with_dexp_literal",
                "out_of_grammar_probes", "bundled_expressions_compared"]
RULE = ("expressions generated from the Fortran grammar of naunet's converter to depth 4 (quick) / 6 (thorough): + - * / **, signed and "
        "d/e-exponent literals, integer literals, nested intrinsics exp log log10 sqrt abs sin cos tan atan dexp, KROME shortcut variables, "
        "user @var/@common variables, n(idx_X) for one-letter neutral and charged species; dedicated probes for chained **, signed-base "
        "**, multi-letter idx_ species, identifiers containing a d-exponent pattern, and out-of-grammar forms (unary minus, relational, "
        "merge); plus every rate expression of the bundled primordial (and, thorough, deuterium) network; 4 valuations each; "
        "non-trivial = expression with >= 2 operators; distinct by expression text")
ASSUMPTIONS = ["gfortran -fdefault-real-8 -fdefault-double-8 is the Fortran semantics (KROME builds with double-precision defaults)",
               "tolerance 1e-9 x max(|value|, sum |top-level terms|): libm pow vs Fortran integer powers differ by ulps"]

VARS = ["Tgas", "T32", "invT", "Te", "lnTe", "invTe", "sqrTgas", "Hnuclei"]
USER_COMMON = ["user_crate", "user_Av"]
USER_VARS = [("ulog", "log10(Tgas)"), ("uscale", "user_crate*1.0e17")]
FUNCS1 = ["exp", "log", "log10", "sqrt", "abs", "sin", "cos", "tan", "atan", "dexp"]
ABUND = [("H", "H"), ("D", "D"), ("C", "C"), ("O", "O"), ("Hp", "H+"), ("Hm", "H-"), ("Cp", "C+"), ("P", "P"), ("Pp", "P+"), ("N", "N"), ("S", "S")]   # idx suffix -> species


class G:
    def __init__(self, rng, depth):
        self.rng, self.depth = rng, depth
        self.tags = set()

    def lit(self, small=False):
        r = self.rng
        k = r.random()
        if k < 0.25:
            v = r.choice(["2", "3", "4", "0.5", "1.5", "2.0", "10.0", "0.25"])
            return v
        m = f"{r.uniform(0.1, 9.9):.3f}"
        e = r.randint(-3, 3) if small else r.randint(-12, 3)
        form = r.choice(["e", "d", "d", "plain"])
        if form == "plain":
            return m
        self.tags.add("dexp_literal" if form == "d" else "eexp_literal")
        if r.random() < 0.2:
            m = m.rstrip("0") if m.rstrip("0").endswith(".") else m
        return f"{m}{form}{e}"

    def atom(self, d):
        r = self.rng
        k = r.random()
        if d <= 0 or k < 0.3:
            k2 = r.random()
            if k2 < 0.45:
                return self.lit()
            if k2 < 0.85:
                return r.choice(VARS + USER_COMMON + [v for v, _ in USER_VARS])
            self.tags.add("abundance_ref")
            return f"n(idx_{r.choice(ABUND)[0]})"
        if k < 0.5:
            self.tags.add("function")
            f = r.choice(FUNCS1)
            return f"{f}({self.expr(d - 1, small=True)})"
        if k < 0.75:
            self.tags.add("power")
            base = r.choice([r.choice(VARS), f"({self.expr(d - 1)})", f"abs({self.expr(d - 1, small=True)})"])
            expo = r.choice(["2", "3", "0.5", "(-0.5)", "(-1.5)", "1.5d0", "(-2)", "0.6353d0", f"({self.lit(small=True)})"])
            return f"{base}**{expo}"
        return f"({self.expr(d - 1)})"

    def term(self, d, small=False):
        r = self.rng
        n = r.choice([1, 1, 2, 2, 3])
        s = self.atom(d)
        for _ in range(n - 1):
            s += r.choice(["*", "*", "/"]) + self.atom(d)
        return s

    def expr(self, d, small=False):
        r = self.rng
        n = r.choice([1, 1, 2, 3])
        terms = [self.term(d, small)]
        for _ in range(n - 1):
            terms.append(r.choice(["+", "+", "-"]) + self.term(d, small))
        return "".join(terms)


_TOK = __import__("re").compile(r"[A-Za-z_]\w*|(?:\d+\.?\d*|\.\d+)(?:[dDeE][-+]?\d+)?")


def realify(e: str) -> str:
    """every integer literal (not part of an identifier, a decimal or an exponent) written as a real"""
    def sub(m):
        t = m.group(0)
        return t + ".0d0" if t.isdigit() else t
    return _TOK.sub(sub, e)


def split_terms(e):
    """top-level additive terms of an expression text (for the cancellation-robust scale)"""
    terms, depth, cur = [], 0, ""
    prev = ""
    for i, ch in enumerate(e):
        if ch == "(":
            depth += 1
        elif ch == ")":
            depth -= 1
        if ch in "+-" and depth == 0 and cur.strip() and prev not in "*/(eEdD" and not (prev in "eEdD" and cur[-2:-1].isdigit()):
            terms.append(cur)
            cur = ch
        else:
            cur += ch
        if not ch.isspace():
            prev = ch
    if cur.strip():
        terms.append(cur)
    return terms


PROBES = [
    # (text, tag, alt Fortran texts {mechanism: text})
    ("2.0**3.0**2.0", "chained_power", {"C12/power-left-associative": "(2.0**3.0)**2.0"}),
    ("T32**2**0.5", "chained_power", {"C12/power-left-associative": "(T32**2)**0.5"}),
    ("lnTe**2**3", "chained_power", {"C12/power-left-associative": "(lnTe**2)**3"}),
    ("1.5d0*invTe**0.5**2", "chained_power", {"C12/power-left-associative": "1.5d0*(invTe**0.5)**2"}),
    ("-2.0**2", "signed_base_power", {"C12/signed-literal-base-power": "(-2.0)**2"}),
    ("1.0d-9+T32*-3.0**2", "signed_base_power", {"C12/signed-literal-base-power": "1.0d-9+T32*(-3.0)**2"}),
    ("-1.5d0**2*invT", "signed_base_power", {"C12/signed-literal-base-power": "(-1.5d0)**2*invT"}),
    ("1.0d-10*n(idx_H2)", "multi_letter_idx", {}),
    ("2.0d-10*n(idx_CO)/n(idx_H)", "multi_letter_idx", {}),
    ("3.0d-10*n(idx_H2p)", "multi_letter_idx", {}),
    ("1.0d-10*2.0d0**int(log10(Tgas)-3.5d0)", "int_intrinsic", {}),
    ("1.0d-12*int(-2.7d0*T32)", "int_intrinsic", {}),
    ("3.0d-11*int(lnTe*1.5d0)*invT", "int_intrinsic", {}),
    ("x1d2*2.0", "dexp_in_identifier", {}),
    ("1.0d-9*k2d3", "dexp_in_identifier", {}),
]
OUT_OF_GRAMMAR = ["-exp(lnTe)", "-(T32+1.0)", "T32*(-invT)", "merge(1.0d0,2.0d0,Tgas>100.)", "max(T32,1.0)", "1.0d0 .gt. T32", "Tgas**-0.5",
                  "1.5d+3*T32", "exp(-Tgas/1d2", "2.0d0*", "T32 T32",
                  # legal Fortran with a unary sign in front of a power: the sign applies to the whole power (-a**2 = -(a**2)); if the translator
                  # ever accepts these, the value must be Fortran's
                  "-T32**2", "exp(-(Tgas/1d3)**2)", "1.0d-10*exp(-invT**0.5)", "-n(idx_H)**2*1d-10", "+T32**0.5", "2.0d0-(-lnTe**2)", "-sqrt(Tgas)**3"]
OOG_ALLOWED_VALUE = {"Tgas**-0.5", "max(T32,1.0)", "1.5d+3*T32"}   # legal Fortran/extension: if accepted, the value must still agree


def gen_cases(tier):
    rng = common.rng_for(ID)
    ncase = 8 if tier == "quick" else 60
    per = 40 if tier == "quick" else 80
    depth = 4 if tier == "quick" else 6
    cases = []
    for ci in range(ncase):
        r = random.Random(rng.getrandbits(64))
        exprs = []
        for _ in range(per):
            g = G(r, r.randint(1, depth))
            e = g.expr(g.depth)
            exprs.append({"text": e, "tags": sorted(g.tags), "kind": "grammar"})
        if ci % 2 == 0:
            for t, tag, alts in PROBES:
                exprs.append({"text": t, "tags": [tag], "kind": "probe", "alts": alts})
        if ci % 2 == 1:
            for t in OUT_OF_GRAMMAR:
                exprs.append({"text": t, "tags": ["out_of_grammar"], "kind": "oog"})
        vals = []
        for _ in range(4):
            vals.append({"Tgas": 10 ** r.uniform(1, 4), "user_crate": 10 ** r.uniform(-17, -15), "user_Av": r.uniform(0.1, 10), "x1d2": 1.25, "k2d3": 0.75,
                         "y": {"H": r.uniform(0.1, 2), "D": r.uniform(0.1, 2), "C": r.uniform(0.1, 2), "O": r.uniform(0.1, 2), "H+": r.uniform(0.1, 2),
                               "H-": r.uniform(0.1, 2), "C+": r.uniform(0.1, 2), "H2": r.uniform(0.1, 2), "CO": r.uniform(0.1, 2), "H2+": r.uniform(0.1, 2),
                               "P": r.uniform(0.1, 2), "P+": r.uniform(0.1, 2), "N": r.uniform(0.1, 2), "S": r.uniform(0.1, 2)}})
        cases.append({"kind": "generated", "exprs": exprs, "vals": vals})
    cases.append({"kind": "var_probe", "vars": [("uf", "user_crate*1d17"), ("up", "T32**2")], "exprs": ["1.0d-10*uf", "2.0d-10*up"]})
    cases.append({"kind": "bundled", "file": "primordial", "vals": [{"Tgas": t} for t in (30.0, 300.0, 5e3, 2e4)]})
    if tier == "thorough":
        cases.append({"kind": "bundled", "file": "deuterium", "vals": [{"Tgas": t} for t in (10.0, 50.0)]})
    return cases


SPECIES = ["H", "D", "C", "O", "H+", "H-", "C+", "H2", "CO", "H2+", "P", "P+", "N", "S"]
IDXNAME = {"H": "H", "D": "D", "C": "C", "O": "O", "H+": "Hp", "H-": "Hm", "C+": "Cp", "H2": "H2", "CO": "CO", "H2+": "H2p", "P": "P", "P+": "Pp", "N": "N", "S": "S"}


def fortran_program(exprs: list[str], vals: list[dict], extra_vars: list[str]) -> str:
    L = ["program ref", "implicit none", f"integer, parameter :: nsp = {len(SPECIES)}"]
    for i, s in enumerate(SPECIES, 1):
        L.append(f"integer, parameter :: idx_{IDXNAME[s]} = {i}")
    L.append("real*8 :: n(nsp), Tgas, T32, invT, Te, lnTe, invTe, sqrTgas, user_crate, user_Av, ulog, uscale, Hnuclei")
    for v in extra_vars:
        L.append(f"real*8 :: {v}")
    L.append("real*8 :: r")
    L.append("integer :: iv")
    L.append(f"do iv = 1, {len(vals)}")
    for vi, v in enumerate(vals, 1):
        L.append(f"if (iv == {vi}) then")
        L.append(f"Tgas = {fnum(v['Tgas'])}")
        for k in ("user_crate", "user_Av"):
            L.append(f"{k} = {fnum(v.get(k, 1.0))}")
        for xv in extra_vars:
            L.append(f"{xv} = {fnum(v.get(xv, 1.0))}")
        for i, s in enumerate(SPECIES, 1):
            L.append(f"n({i}) = {fnum((v.get('y') or {}).get(s, 1.0))}")
        L.append("end if")
    L += ["Te = Tgas*8.617343d-5", "lnTe = log(Te)", "T32 = Tgas/300.0", "invT = 1.0/Tgas", "invTe = 1.0/Te", "sqrTgas = sqrt(Tgas)",
          "ulog = log10(Tgas)", "uscale = user_crate*1d17", "Hnuclei = 1.0d4"]
    for i, e in enumerate(exprs):
        # free-form lines may be long: split at operators with continuation
        L.append(f"r = {wrapf(e)}")
        L.append(f"write(*,'(I0,1X,I0,1X,ES26.17E3)') iv, {i}, r")
    L += ["end do", "end program"]
    return "\n".join(L) + "\n"


def fnum(v):
    s = repr(float(v))
    if "e" in s:
        m, e = s.split("e")
        return f"{m}d{int(e)}"
    return s + "d0"


def wrapf(e, width=100):
    return e          # -ffree-line-length-none: no continuation lines needed (splitting could cut a `**` token)
    out, cur = [], ""
    for ch in e:
        cur += ch
        if len(cur) >= width and ch in "+*/,(":
            out.append(cur + " &")
            cur = ""
    out.append(cur)
    return "\n  ".join(out)


def run_fortran(work: Path, exprs, vals, extra_vars):
    src = work / "ref.f90"
    src.write_text(fortran_program(exprs, vals, extra_vars))
    p = subprocess.run(["gfortran", "-O0", "-fdefault-real-8", "-fdefault-double-8", "-ffree-line-length-none", "-fno-range-check", "-o", str(work / "ref"), str(src)],
                       capture_output=True, text=True, timeout=300)
    if p.returncode != 0:
        return None, p.stderr
    q = subprocess.run([str(work / "ref")], capture_output=True, text=True, timeout=120)
    out = {}
    for line in q.stdout.splitlines():
        f = line.split()
        if len(f) == 3:
            try:
                v = float(f[2])
            except ValueError:
                v = float("nan")
            out[(int(f[0]) - 1, int(f[1]))] = v
    return out, q.stderr


def fortran_compiles(work: Path, e: str, extra_vars) -> bool:
    out, err = run_fortran(work, [e], [{"Tgas": 100.0}], extra_vars)
    return out is not None


def run_var_probe(case, ctx):
    """@var definitions are Fortran too: a rate that references one must keep its value."""
    from naunet.network import Network
    from naunet.species import Species
    obs, viol = Counter(), []
    work = ctx.fresh_dir("kv")
    lines = ["@common:user_crate"] + [f"@var:{v} = {e}" for v, e in case["vars"]] + ["@format:idx,R,R,P,Tmin,Tmax,rate"]
    lines += [f"{i + 1},H,D,H,NONE,NONE,{e}" for i, e in enumerate(case["exprs"])]
    (work / "net.krome").write_text("\n".join(lines) + "\n")
    Species.reset()
    obs["var_probe_cases"] += 1
    try:
        net = Network(filelist=str(work / "net.krome"), fileformats="krome")
        net.to_code(method="dense", path=str(work / "proj"))
    except Exception as e:
        return {"status": "refused", "violations": [], "obs": dict(obs), "nontrivial": True, "sample": {"var_probe": "refused: " + type(e).__name__}}
    try:
        b = lab.build_cvode(work / "proj", work / "b", "dense", ctx.cache, core_only=True)
    except lab.BuildError as e:
        txt = (work / "proj" / "src" / e.unit).read_text() if (work / "proj" / "src" / e.unit).exists() else ""
        w = {}
        if any(f"realtype {v} = {rhs};" in txt for v, rhs in case["vars"]):
            w["mechanism"] = "C12/var-definitions-copied-untranslated"
        viol.append(violation("accepted_expression_not_valid_c", f"@var definitions {case['vars']} are emitted verbatim: {e.unit}: {'; '.join(e.diagnostics()[:2])[:200]}", **w))
        return {"status": "violated", "violations": viol, "obs": dict(obs), "nontrivial": True, "sample": {"var_probe": case["vars"]}}
    ref, err = run_fortran(work, [e for e in case["exprs"]], [{"Tgas": 120.0, "user_crate": 2e-17}], [v for v, _ in case["vars"]])
    rr = lab.run_driver(b["exe"], ["set Tgas 120.0", "set user_crate 2e-17", "set nH 1e4", "y 1 1 1", "rates"], work / "b")
    # the Fortran reference needs the var definitions evaluated first; a simple direct evaluation suffices for the two probes
    T32 = 120.0 / 300.0
    expect = [1.0e-10 * (2e-17 * 1e17), 2.0e-10 * T32 ** 2]
    k = rr.by_ev("rates")[0]["k"] if rr.by_ev("rates") else []
    for i, ev in enumerate(expect):
        obs["expressions_compared"] += 1
        if i >= len(k) or not close(k[i], ev, None, rel=1e-12):
            viol.append(violation("value_changed_by_translation", f"@var probe `{case['exprs'][i]}`: C {k[i] if i < len(k) else None!r}, expected {ev!r}"))
    return {"status": "violated" if viol else "held", "violations": viol, "obs": dict(obs), "nontrivial": True, "sample": {"var_probe": case["vars"]}}


def run_case(case, ctx):
    if case["kind"] == "bundled":
        return run_bundled(case, ctx)
    if case["kind"] == "var_probe":
        return run_var_probe(case, ctx)
    from naunet.network import Network
    from naunet.species import Species
    obs, viol = Counter(), []
    work = ctx.fresh_dir("k")
    exprs = case["exprs"]
    extra_vars = ["x1d2", "k2d3"]
    header = ["@common:" + ",".join(USER_COMMON + extra_vars)] + [f"@var:{v} = {e}" for v, e in USER_VARS] + ["@format:idx,R,R,P,Tmin,Tmax,rate"]
    # structural reactions so that every species referenced through n(idx_) is part of the network
    pad = [("H", "D"), ("C", "O"), ("H+", "H-"), ("C+", "H"), ("H2", "CO"), ("H2+", "H"), ("P", "P+"), ("N", "S")]

    def build(active):
        lines = list(header)
        for i, (a, b) in enumerate(pad):
            lines.append(f"{9000 + i},{a},{b},{a},NONE,NONE,1.0d-30")
        for j, ei in enumerate(active):
            lines.append(f"{j + 1},H,D,H,NONE,NONE,{exprs[ei]['text']}")
        p = work / "net.krome"
        p.write_text("\n".join(lines) + "\n")
        Species.reset()
        return Network(filelist=str(p), fileformats="krome")

    # 1. which expressions does the translator accept?
    accepted, refused = [], []
    for i, ex in enumerate(exprs):
        try:
            net = build([i])
            net.reaction_list[-1].rateexpr()
            accepted.append(i)
        except Exception as e:
            refused.append(i)
            ex["refusal"] = f"{type(e).__name__}"
    for i in refused:
        obs["refused_expressions"] += 1
        if exprs[i]["kind"] == "oog":
            obs["out_of_grammar_probes"] += 1
    # 2. render + compile, dropping expressions whose emitted C does not compile
    active = list(accepted)
    not_c = {}
    b = None
    for _round in range(6):
        try:
            net = build(active)
            proj = work / "proj"
            if proj.exists():
                import shutil
                shutil.rmtree(proj)
            net.to_code(method="dense", path=str(proj))
        except Exception as e:
            import traceback
            viol.append(violation("generator_raised_at_render", f"{type(e).__name__}: {e}", trace=traceback.format_exc()[-800:]))
            return {"status": "violated", "violations": viol, "obs": dict(obs)}
        try:
            b = lab.build_cvode(proj, work / "b", "dense", ctx.cache, core_only=True)
            break
        except lab.BuildError as e:
            txt = (proj / "src" / "naunet_rates.cpp").read_text().splitlines()
            bad = set()
            for m in re.finditer(r"naunet_rates\.cpp:(\d+):\d+: error: (.*)", e.stderr):
                ln = int(m.group(1)) - 1
                # walk back to the statement's k[<i>] =
                for back in range(ln, max(ln - 12, -1), -1):
                    mm = re.search(r"\bk\[(\d+)\] =", txt[back]) if back < len(txt) else None
                    if mm:
                        ki = int(mm.group(1)) - len(pad)
                        if 0 <= ki < len(active):
                            bad.add(active[ki])
                            not_c.setdefault(active[ki], m.group(2))
                        break
            if not bad:
                viol.append(violation("emitted_code_does_not_compile", f"{e.unit}: {'; '.join(e.diagnostics()[:3])}"))
                return {"status": "violated", "violations": viol, "obs": dict(obs)}
            active = [i for i in active if i not in bad]
            b = None
    for i, msg in not_c.items():
        ex = exprs[i]
        w = {}
        if "multi_letter_idx" in ex["tags"] and re.search(r"undeclared identifier 'IDX_\w{2,}'", msg):
            w["mechanism"] = "C12/idx-rewrite-handles-one-letter-species-only"
        if "dexp_in_identifier" in ex["tags"] and re.search(r"undeclared identifier '\w*\de\d\w*'", msg):
            w["mechanism"] = "C12/d-exponent-regex-rewrites-identifiers"
        mws = re.search(r"undeclared identifier '(\w+)'", msg)
        if mws and re.search(r"[A-Za-z_]\w*\s+[A-Za-z_]\w*", ex["text"]) and mws.group(1) == re.sub(r"\s+", "", ex["text"]):
            w["mechanism"] = "C12/whitespace-between-identifiers-ignored"
        viol.append(violation("accepted_expression_not_valid_c", f"`{ex['text']}` was accepted but the emitted C does not compile: {msg[:160]}", expr=ex["text"], **w))
    if b is None:
        return {"status": "violated", "violations": viol[:12], "obs": dict(obs)}
    # 3. reference values (original text + alternative readings for the explanation models)
    ftexts, fmap = [], {}
    for i in active:
        ex = exprs[i]
        fmap[(i, "orig")] = len(ftexts)
        ftexts.append(ex["text"])
        for ti, t in enumerate(split_terms(ex["text"])):
            fmap[(i, "term", ti)] = len(ftexts)
            ftexts.append(t.lstrip("+"))
        alts = dict(ex.get("alts") or {})
        real = realify(ex["text"])
        if real != ex["text"]:
            # explanation model for integer arithmetic: the same expression with every integer literal made real
            alts["C12/integer-literal-arithmetic-evaluated-as-real"] = real
        ex["alts_all"] = alts
        for mech, t in alts.items():
            fmap[(i, "alt", mech)] = len(ftexts)
            ftexts.append(t)
    nv = len(case["vals"])
    pert = []
    for v in case["vals"]:
        pv = dict(v, Tgas=v["Tgas"] * (1 + 1e-13), user_crate=v["user_crate"] * (1 - 1e-13), user_Av=v["user_Av"] * (1 + 1e-13))
        pv["y"] = {k: x * (1 + (1e-13 if i % 2 else -1e-13)) for i, (k, x) in enumerate(v["y"].items())}
        pert.append(pv)
    allvals = case["vals"] + pert       # twin valuations: a conditioning estimate for every expression
    ref, err = run_fortran(work, ftexts, allvals, extra_vars)
    if ref is None:
        # some text is not Fortran (e.g. an out-of-grammar probe the translator accepted): find which
        good = []
        for j, t in enumerate(ftexts):
            good.append(fortran_compiles(work, t, extra_vars))
        keep = [j for j, gd in enumerate(good) if gd]
        remap = {j: n for n, j in enumerate(keep)}
        ref, err = run_fortran(work, [ftexts[j] for j in keep], allvals, extra_vars)
        if ref is None:
            return {"status": "inconclusive", "violations": [], "obs": dict(obs), "lost": "gfortran", "error": (err or "")[-500:]}
        fmap = {k: remap[v] for k, v in fmap.items() if v in remap}
    # 4. observed values
    macros = lab.parse_macros(work / "proj")
    slots = {}
    for s in SPECIES:
        alias = s.rstrip("+-") + ("II" if s.endswith("+") else "M" if s.endswith("-") else "I")
        slots[s] = int(macros["IDX"].get(alias, -1))
    cmds = []
    for v in case["vals"]:
        y = [1.0] * macros["NSPECIES"]
        for s, val in v["y"].items():
            if slots[s] >= 0:
                y[slots[s]] = val
        cmds += [f"set Tgas {lab.fmt(v['Tgas'])}", "set nH 1e4", f"set user_crate {lab.fmt(v['user_crate'])}", f"set user_Av {lab.fmt(v['user_Av'])}",
                 f"set x1d2 {lab.fmt(v['x1d2'])}", f"set k2d3 {lab.fmt(v['k2d3'])}", "y " + " ".join(lab.fmt(t) for t in y), "rates"]
    rr = lab.run_driver(b["exe"], cmds, work / "b")
    if rr.crashed():
        viol.append(violation("sanitizer_report_or_crash", (rr.sanitizer_reports or ["driver crashed"])[0][:300], stderr=rr.stderr[-1000:]))
        return {"status": "violated", "violations": viol, "obs": dict(obs)}
    if rr.ubsan:
        obs["ubsan_reports"] += len(rr.ubsan)
    kev = rr.by_ev("rates")
    for ai, i in enumerate(active):
        ex = exprs[i]
        if (i, "orig") not in fmap:
            if ex["kind"] == "oog":
                viol.append(violation("out_of_grammar_accepted", f"`{ex['text']}` is not Fortran but was accepted and rendered", expr=ex["text"]))
            continue
        bad = None
        for vi in range(len(case["vals"])):
            o = kev[vi]["k"][len(pad) + ai]
            rv = ref.get((vi, fmap[(i, "orig")]))
            sc = max(abs(rv) if rv == rv else 0.0, sum(abs(ref.get((vi, fmap[k]), 0.0)) for k in fmap if k[0] == i and k[1] == "term" and ref.get((vi, fmap[k]), 0.0) == ref.get((vi, fmap[k]), 0.0)))
            obs["expressions_compared"] += 1
            rp = ref.get((vi + nv, fmap[(i, "orig")]))
            sens = abs(rp - rv) if (rp == rp and rv == rv and not math.isinf(rp) and not math.isinf(rv)) else 0.0
            if rv == rv and rp == rp and sens > 1e-7 * max(sc, 1e-300):
                obs["ill_conditioned_skipped"] += 1      # the Fortran value itself moves by > 1e-7 under a 1e-13 input perturbation
                continue
            if not close(o, rv, sc + 1e4 * sens, rel=1e-9):
                bad = (vi, o, rv)
                break
        for t in ex["tags"]:
            obs["expr_with_" + t] += 1
        if ex["kind"] == "oog":
            obs["out_of_grammar_probes"] += 1
        if bad:
            vi, o, rv = bad
            w = {}
            for mech in (ex.get("alts_all") or ex.get("alts") or {}):
                if all(close(kev[v2]["k"][len(pad) + ai], ref.get((v2, fmap.get((i, "alt", mech), -1)), float("nan")), None, rel=1e-9) for v2 in range(nv)):
                    w["mechanism"] = mech
            viol.append(violation("value_changed_by_translation", f"`{ex['text']}`: C gives {o!r}, Fortran gives {rv!r} (valuation {vi})", expr=ex["text"],
                                  c_text=next((l for l in (work / 'proj' / 'src' / 'naunet_rates.cpp').read_text().splitlines() if f"k[{len(pad) + ai}] =" in l), "")[:200], **w))
    nontriv = sum(1 for i in active if len(re.findall(r"[-+*/]", exprs[i]["text"])) >= 2)
    sample = {"expressions": [exprs[i]["text"] for i in active[:5]], "refused": [exprs[i]["text"] for i in refused[:5]], "accepted": len(active)}
    return {"status": "violated" if viol else "held", "violations": viol[:14], "obs": dict(obs), "nontrivial": nontriv >= 2, "sample": sample,
            "n_nontrivial": nontriv, "n_eval": len(active)}


def run_bundled(case, ctx):
    """Rate expressions of a bundled KROME network: C value vs gfortran value of the original text."""
    from naunet.network import Network
    from naunet.species import Species
    obs, viol = Counter(), []
    work = ctx.fresh_dir("kb")
    src = common.REPO / "naunet" / "examples" / case["file"] / f"{case['file']}.krome"
    Species.reset()
    try:
        net = Network(filelist=str(src), fileformats="krome")
        proj = work / "proj"
        net.to_code(method="dense", path=str(proj))
        b = lab.build_cvode(proj, work / "b", "dense", ctx.cache, core_only=True)
    except lab.BuildError as e:
        return {"status": "violated", "violations": [violation("emitted_code_does_not_compile", f"{case['file']}: {e.unit}: {'; '.join(e.diagnostics()[:2])}")], "obs": {}}
    except Exception as e:
        return {"status": "violated", "violations": [violation("generator_raised_at_render", f"{case['file']}: {type(e).__name__}: {e}")], "obs": {}}
    texts = [r.rate_string for r in net.reaction_list]
    fields = b["fields"]
    user = [f for f in fields if f.startswith("user_")]
    # Fortran reference: the original rate text; abundances n(idx_H), n(idx_D) only
    global SPECIES, IDXNAME
    L = ["program ref", "implicit none", "integer, parameter :: idx_H = 1, idx_D = 2", "real*8 :: n(2), Tgas, T32, invT, Te, lnTe, invTe, sqrTgas, Hnuclei, r"]
    for u in user:
        L.append(f"real*8 :: {u}")
    L += ["integer :: iv", f"do iv = 1, {len(case['vals'])}"]
    for vi, v in enumerate(case["vals"], 1):
        L.append(f"if (iv == {vi}) Tgas = {fnum(v['Tgas'])}")
    for ui, u in enumerate(user):
        L.append(f"{u} = {fnum(1.5 + ui)}")
    L += ["n(1) = 0.75d0", "n(2) = 1.25d0", "Hnuclei = 1.0d4", "Te = Tgas*8.617343d-5", "lnTe = log(Te)", "T32 = Tgas/300.0", "invT = 1.0/Tgas", "invTe = 1.0/Te",
          "sqrTgas = sqrt(Tgas)"]
    for i, t in enumerate(texts):
        L.append(f"r = {wrapf(t)}")
        L.append(f"write(*,'(I0,1X,I0,1X,ES26.17E3)') iv, {i}, r")
    L += ["end do", "end program"]
    (work / "ref.f90").write_text("\n".join(L) + "\n")
    p = subprocess.run(["gfortran", "-O0", "-fdefault-real-8", "-fdefault-double-8", "-ffree-line-length-none", "-fno-range-check", "-o", str(work / "ref"), str(work / "ref.f90")],
                       capture_output=True, text=True, timeout=600)
    if p.returncode != 0:
        return {"status": "inconclusive", "violations": [], "obs": {}, "lost": "gfortran", "error": p.stderr[-600:]}
    q = subprocess.run([str(work / "ref")], capture_output=True, text=True, timeout=300)
    ref = {}
    for line in q.stdout.splitlines():
        f = line.split()
        if len(f) == 3:
            try:
                ref[(int(f[0]) - 1, int(f[1]))] = float(f[2])
            except ValueError:
                ref[(int(f[0]) - 1, int(f[1]))] = float("nan")
    macros = lab.parse_macros(proj)
    y = [1.0] * macros["NSPECIES"]
    for s, v in (("HI", 0.75), ("DI", 1.25)):
        if s in macros["IDX"]:
            y[int(macros["IDX"][s])] = v
    cmds = []
    for v in case["vals"]:
        cmds += [f"set Tgas {lab.fmt(v['Tgas'])}", "set nH 1e4"] + [f"set {u} {lab.fmt(1.5 + ui)}" for ui, u in enumerate(user)] + ["y " + " ".join(lab.fmt(t) for t in y), "rates"]
    rr = lab.run_driver(b["exe"], cmds, work / "b", timeout=600)
    if rr.crashed():
        return {"status": "violated", "violations": [violation("sanitizer_report_or_crash", (rr.sanitizer_reports or ["crash"])[0][:300], stderr=rr.stderr[-800:])], "obs": {}}
    kev = rr.by_ev("rates")
    for vi, v in enumerate(case["vals"]):
        for i, r in enumerate(net.reaction_list):
            inside = (r.temp_min <= 0 or v["Tgas"] >= r.temp_min) and (r.temp_max <= 0 or v["Tgas"] < r.temp_max)
            if not inside:
                continue
            o, rv = kev[vi]["k"][i], ref.get((vi, i))
            obs["expressions_compared"] += 1
            obs["bundled_expressions_compared"] += 1
            if not close(o, rv, None, rel=1e-9):
                viol.append(violation("value_changed_by_translation", f"{case['file']} reaction {i}: `{texts[i][:120]}` C {o!r} Fortran {rv!r} at T={v['Tgas']}", expr=texts[i]))
                if len(viol) > 10:
                    break
    sample = {"bundled": case["file"], "expressions": texts[:3], "n": len(texts)}
    return {"status": "violated" if viol else "held", "violations": viol[:10], "obs": dict(obs), "nontrivial": True, "sample": sample,
            "n_nontrivial": len(set(texts)), "n_eval": len(texts)}


def aggregate(results, cases):
    return {"distinct_nontrivial": sum(r.get("n_nontrivial", 0) for r in results), "evaluations": sum(r.get("n_eval", 0) for r in results)}
