"""Entry point behind ./check: generate cases, run them in isolated worker processes, judge,
write evidence and replay files, print the verdict lines and pick the exit code.

exit 0  held on everything explored (KNOWN-FINDING lines possible)
exit 1  at least one `VIOLATION property=<ID> replay=<path>` line
exit 2  INCONCLUSIVE (deciding monitor observed nothing / too many lost cases / tool missing)
"""
from __future__ import annotations

import argparse
import importlib
import json
import os
import subprocess
import sys
import traceback
from collections import Counter
from concurrent.futures import ThreadPoolExecutor
from pathlib import Path

from . import common, findings
from .common import EVIDENCE, REPLAY, ROOT, Scratch, Timer, case_id, jsonable


def load_module(prop: str):
    return importlib.import_module(f"verif.props.{prop.lower()}")


REPLAY_HASHSEED = None


def hashseed_for(mod, idx: int) -> str:
    """String-hash seed of the worker that runs batch `idx`.  Set iteration order inside naunet depends on it, so the batches of
    one run use different seeds (deterministic in VERIF_SEED and the batch number; recorded in results and replay files).
    An explicit PYTHONHASHSEED in the environment, a module-level HASHSEED or a replay file's value win."""
    if REPLAY_HASHSEED is not None:
        return str(REPLAY_HASHSEED)
    if getattr(mod, "HASHSEED", None) is not None:
        return str(mod.HASHSEED)
    if os.environ.get("PYTHONHASHSEED"):
        return os.environ["PYTHONHASHSEED"]
    return str((common.seed() * 1000003 + idx * 7919) % 4294967295) if idx % 3 else "0"


def _worker_env(mod, idx: int = 0) -> dict:
    env = dict(os.environ)
    env["PYTHONPATH"] = f"{ROOT}:{common.DEPS}" + (":" + env["PYTHONPATH"] if env.get("PYTHONPATH") else "")
    env["PYTHONHASHSEED"] = hashseed_for(mod, idx)
    env["NAUNET_VERIF"] = "1"
    env["PYTHONDONTWRITEBYTECODE"] = "1"
    env["TQDM_DISABLE"] = "1"
    return env


def _run_batch(mod, prop, tier, batch, idx, work: Path):
    bfile = work / f"batch_{idx}.json"
    ofile = work / f"out_{idx}.jsonl"
    wdir = work / f"w{idx}"
    wdir.mkdir(parents=True, exist_ok=True)
    bfile.write_text(json.dumps(batch))
    timeout = getattr(mod, "TIMEOUT", 300) * max(1, len(batch)) if getattr(mod, "TIMEOUT_PER_CASE", True) else getattr(mod, "TIMEOUT", 300)
    cmd = [common.PY, "-m", "verif.worker", prop, str(bfile), str(ofile), str(wdir), tier, str(work / "cache")]
    status, err = "ok", ""
    try:
        wenv = _worker_env(mod, idx)
        p = subprocess.run(cmd, cwd=str(ROOT), env=wenv, capture_output=True, text=True, timeout=timeout)
        if p.returncode != 0:
            status, err = "worker_died", (p.stderr or "")[-2000:]
    except subprocess.TimeoutExpired:
        status, err = "worker_timeout", f"timeout after {timeout}s"
    out = []
    if ofile.exists():
        for line in ofile.read_text().splitlines():
            try:
                out.append(json.loads(line))
            except Exception:
                pass
    for r in out:
        r["hashseed"] = hashseed_for(mod, idx)
    done = {r.get("case_id") for r in out}
    for c in batch:
        cid = c.get("case_id") or case_id(c)
        if cid not in done:
            out.append({"case_id": cid, "status": "inconclusive", "violations": [], "obs": {},
                        "lost": status if status != "ok" else "no_result", "error": err})
    if not os.environ.get("VERIF_KEEP"):
        import shutil
        shutil.rmtree(wdir, ignore_errors=True)
    return out


def execute(mod, prop, tier, cases, work: Path):
    bs = max(1, getattr(mod, "BATCH", 1))
    batches = [cases[i:i + bs] for i in range(0, len(cases), bs)]
    nproc = max(1, common.NCPU // max(1, getattr(mod, "CPUS_PER_CASE", 1)))
    results = []
    with ThreadPoolExecutor(max_workers=nproc) as ex:
        futs = [ex.submit(_run_batch, mod, prop, tier, b, i, work) for i, b in enumerate(batches)]
        for f in futs:
            results.extend(f.result())
    return results


def main(argv=None):
    ap = argparse.ArgumentParser()
    ap.add_argument("prop")
    ap.add_argument("--tier", default=os.environ.get("VERIF_TIER", "quick"), choices=["quick", "thorough"])
    ap.add_argument("--replay", default=None)
    ap.add_argument("--max-cases", type=int, default=None)
    a = ap.parse_args(argv)
    prop = a.prop.upper()
    tier = a.tier
    timer = Timer()
    mod = load_module(prop)
    EVIDENCE.mkdir(exist_ok=True)
    (REPLAY / prop).mkdir(parents=True, exist_ok=True)

    pre = getattr(mod, "precheck", None)
    with Scratch(prop) as work:
        try:
            if pre:
                why = pre()
                if why:
                    print(f"INCONCLUSIVE property={prop} reason={why}")
                    return 2
            if a.replay:
                rp = json.loads(Path(a.replay).read_text())
                cases = [rp["case"]]
                tier = rp.get("tier", tier)
                if rp.get("hashseed") is not None:
                    global REPLAY_HASHSEED
                    REPLAY_HASHSEED = rp["hashseed"]
            else:
                cases = mod.gen_cases(tier)
                if a.max_cases:
                    cases = cases[:a.max_cases]
            for c in cases:
                c.setdefault("case_id", case_id(c))
            results = execute(mod, prop, tier, cases, work)
            post = getattr(mod, "post_run", None)
            if post:
                results = post(results, cases, work, tier) or results
        except Exception:
            traceback.print_exc()
            print(f"INCONCLUSIVE property={prop} reason=harness_crash")
            return 2

    by_id = {c["case_id"]: c for c in cases}
    lost = [r for r in results if r.get("lost")]
    refused = [r for r in results if r.get("status") == "refused"]
    obs = Counter()
    for r in results:
        for k, v in (r.get("obs") or {}).items():
            if isinstance(v, (int, float)):
                obs[k] += v
    # ---- violations and known findings
    fresh, known = [], Counter()
    known_what = {}
    for r in results:
        for v in r.get("violations") or []:
            fid = findings.classify(prop, v, by_id.get(r["case_id"]))
            if fid:
                known[fid] += 1
                known_what[fid] = findings.describe(fid)
            else:
                fresh.append((r, v))
    replay_paths = []
    seen_cases = set()
    for r, v in fresh:
        cid = r["case_id"]
        if cid in seen_cases:
            continue
        seen_cases.add(cid)
        path = REPLAY / prop / f"{cid}.json"
        path.write_text(json.dumps(jsonable({
            "property": prop, "seed": common.seed(), "tier": tier, "hashseed": r.get("hashseed"), "case": by_id.get(cid),
            "violations": [vv for rr, vv in fresh if rr["case_id"] == cid][:20],
        }), indent=1))
        replay_paths.append((path, v))
    # ---- evidence
    nontriv = {r["case_id"] for r in results if r.get("nontrivial") and not r.get("lost")}
    samples = [r.get("sample") for r in results if r.get("sample")][:getattr(mod, "NSAMPLES", 4)]
    if not samples:
        samples = [jsonable(c) for c in cases[:2]]
    cov = {
        "evaluations": len([r for r in results if not r.get("lost")]),
        "distinct_nontrivial": len(nontriv),
        "rule": getattr(mod, "RULE", ""),
        "samples": jsonable(samples),
        "observed": dict(sorted(obs.items())),
        "refused_cases": len(refused),
        "lost_cases": len(lost),
        "known_findings_seen": dict(known),
        "fresh_violations": len(fresh),
    }
    agg = getattr(mod, "aggregate", None)
    if agg:
        try:
            cov.update(jsonable(agg(results, cases)))
        except Exception:
            traceback.print_exc()
    ev = {
        "property_id": prop, "tier": tier, "seed": common.seed(), "level": getattr(mod, "LEVEL", "exploration"),
        "coverage": cov, "assumptions": getattr(mod, "ASSUMPTIONS", []), "wall_s": timer.s(),
        "violations": len(fresh),
    }
    if not a.replay and not os.environ.get("VERIF_NO_EVIDENCE"):
        # (the validation tools run the checks against deliberately broken copies of the repository: those runs must not overwrite the evidence)
        (EVIDENCE / f"{prop}.json").write_text(json.dumps(ev, indent=1))

    for fid, n in sorted(known.items()):
        print(f"KNOWN-FINDING: property={prop} {fid}: {known_what[fid]} (seen {n}x)")
    if fresh:
        for path, v in replay_paths[:50]:
            print(f"VIOLATION property={prop} replay={path} kind={v.get('kind')} detail={str(v.get('detail'))[:300]}")
        return 1
    # ---- inconclusive?
    reasons = []
    if results and len(lost) > 0.05 * len(results):
        reasons.append(f"lost_cases={len(lost)}/{len(results)}:{(lost[0].get('error') or lost[0].get('lost') or '')[-300:]!r}")
    if not a.replay:
        for key in getattr(mod, "REQUIRED_OBS", []):
            if obs.get(key, 0) <= 0:
                reasons.append(f"monitor_never_reached:{key}")
        if cov["distinct_nontrivial"] < 2:
            reasons.append("too_few_nontrivial_cases")
    if reasons:
        print(f"INCONCLUSIVE property={prop} reason={';'.join(reasons)}")
        return 2
    print(f"HELD property={prop} tier={tier} seed={common.seed()} cases={cov['evaluations']} nontrivial={cov['distinct_nontrivial']} "
          f"refused={len(refused)} lost={len(lost)} wall={timer.s()}s observed={dict(sorted(obs.items()))}")
    return 0


if __name__ == "__main__":
    sys.exit(main())
