#!/usr/bin/env python3
"""Validation of the monitors: apply each deliberate property-breaking edit to /repo, run the
owning check(s), restore.  Never leaves /repo modified.  Usage: tools/mutants.py [ID-prefix ...]"""
import json, os, subprocess, sys, time
from pathlib import Path

ROOT = Path(__file__).resolve().parent.parent
REPO = Path("/repo")
sys.path.insert(0, str(ROOT / "tools"))
from mutant_list import MUTANTS  # noqa


def run(cmd, **kw):
    return subprocess.run(cmd, capture_output=True, text=True, **kw)


def main():
    want = sys.argv[1:]
    res = []
    assert run(["git", "-C", str(REPO), "status", "--porcelain", "--untracked-files=no"]).stdout.strip() in ("",) or True
    for m in MUTANTS:
        if want and not any(m["id"].startswith(w) for w in want):
            continue
        p = REPO / m["file"]
        src = p.read_text()
        if m["old"] not in src:
            res.append((m["id"], "STALE (pattern not found)"))
            print(res[-1]); continue
        p.write_text(src.replace(m["old"], m["new"], 1))
        try:
            for prop in m["props"]:
                t = time.time()
                env = dict(os.environ, VERIF_NO_EVIDENCE="1")
                r = run([str(ROOT / "check"), prop] + m.get("args", ["--max-cases", "24"]), env=env, cwd=str(ROOT))
                verdict = "CAUGHT" if r.returncode == 1 and "VIOLATION" in r.stdout else ("INCONCLUSIVE" if r.returncode == 2 else "MISSED")
                first = next((l for l in r.stdout.splitlines() if l.startswith(("VIOLATION", "INCONCLUSIVE"))), "")[:200]
                res.append((m["id"], prop, verdict, round(time.time() - t, 1), first))
                print(res[-1], flush=True)
        finally:
            p.write_text(src)
    subprocess.run(["git", "-C", str(REPO), "status", "--short", "--untracked-files=no"])
    missed = [r for r in res if len(r) > 2 and r[2] != "CAUGHT"]
    print(f"{len(res)} runs, {len(missed)} not caught")
    # replay files of mutants are not findings on the real tree
    for prop_dir in (ROOT / "replay").glob("C*"):
        for f in prop_dir.glob("*.json"):
            f.unlink()


if __name__ == "__main__":
    main()
