#!/bin/sh
# quick-tier sweep over several seeds from fresh processes: prints only what is not HELD
cd "$(dirname "$0")/.."
for s in "$@"; do
  for p in C01 C02 C03 C04 C05 C06 C07 C08 C09 C10 C11 C12 C13 C14 C15 C16 C17 C18 C19 C20; do
    out=$(VERIF_SEED=$s ./check $p 2>&1); rc=$?
    if [ $rc -ne 0 ]; then echo "seed=$s $p rc=$rc"; echo "$out" | grep -v "^KNOWN" | head -3 | cut -c1-400; fi
  done
  echo "seed $s done"
done
