#!/usr/bin/env python3
"""Regenerate /verif/MANIFEST.json from the property modules that exist (keeps it valid at all times)."""
import json, importlib, sys
from pathlib import Path
ROOT = Path(__file__).resolve().parent.parent
sys.path.insert(0, str(ROOT))

TEXT = {
 "C01": ("runtime monitoring of the compiled generated RHS against a mass-action reference model",
         "The real generator renders seeded random networks for all four back-ends; the emitted Fex is compiled with ASan/UBSan and executed; an offline monitor recomputes every derivative from the abstract network with the rate vector logged at the EvalRates seam (or injected distinct O(1) rates). Held on the executions listed in the evidence, nothing more.",
         "shims for SUNDIALS/Boost/CUDA (CUDA kernels emulated on CPU), clang-14, species->slot read from compiled IDX_ macros via the documented alias convention"),
 "C02": ("runtime monitoring: numerical differentiation of the compiled frozen Fex (exact 4-point stencil) vs compiled Jac",
         "Rate coefficients, npar, mu and gamma are pinned through -D seams; the compiled Fex is differentiated with a stencil exact for degree<=4 polynomials and all n^2 entries are compared with the matrix the compiled Jac filled (dense, CSR decoded); cusparse/odeint matrices are compared with the analytic derivative of the abstract network.",
         "same lab as C01; stencil exactness relies on the frozen RHS being polynomial of degree <= 3 per abundance"),
 "C03": ("sanitizers (ASan + UBSan bounds) on generated code with exactly sized buffers + CSR/cross-layout monitor",
         "All four renderings of one Network are executed under AddressSanitizer/UBSan against shim buffers of exactly the declared sizes; CSR arrays as filled by the generated code are validated and compared bit for bit with dense/ublas assignments; jac_pattern.dat is compared with the stored entries.",
         "red-zone sanitizers miss far out-of-bounds accesses (>1 KiB past a heap buffer); bit-exactness relies on -O0 -ffp-contract=off"),
 "C07": ("runtime monitoring: parser outputs vs abstract reactions encoded by independent encoders",
         "Files in all six formats are generated from abstract reactions by encoders written from the format descriptions and read by the real Network; every parsed field of every reaction and the number/order of reactions are compared with the abstract case, with blank/whitespace/comment/directive lines, CRLF and missing final newline interleaved.",
         "encoders and code->type tables follow the published format descriptions"),
 "C08": ("runtime monitoring: Species attributes vs the composition each name was rendered from",
         "Names are rendered from compositions under three naming configurations (default lists, upper-case list with replacement, custom prefix/grain symbol); element counts, charge, phase, gas name, mass number, is_atom and rewritten name are compared; garbage names must raise.",
         "ambiguous renderings are excluded by an independent tokenizer; mass numbers from an independent table"),
 "C14": ("icontract class invariant on the real Network + offline reference-model monitor over edit histories",
         "Random edit histories run against a Network that carries an icontract invariant (evaluated after every public call); after each step reaction identity/order, species, sources/sinks, where_species and indices are compared with a reference model that recomputes everything from surviving reactions; the same edits are driven through `naunet extend`. Thorough tier re-runs the repository tests with the invariant on.",
         "reaction identity by object id; remove(instance) specified as removing the whole equality class"),
 "C15": ("runtime monitoring: duplicate reports vs O(n^2) pairwise reference",
         "Reaction lists with planted equivalence classes (permutations, repeated species, window/type-only differences, mixed spellings) are checked in all four modes against a pairwise reference; removal must leave one representative per class.",
         "string modes compare names, default/brief compare chemical identity; UNKNOWN-typed reactions excluded (non-transitive equality)"),
 "C19": ("fault injection: scripted mock integrator driving the real generated Solve/HandleError under ASan",
         "The generated naunet.cpp is linked with a scripted mock CVODE/Odeint whose solution is linear in t, so integrated time is read off the state; integrator outcomes (recoverable, reset, unrecoverable flags, warnings, failing re-initialisation, step-budget overruns, integrator exceptions) are enumerated at every call position of the recovery ladder with partial progress; success must mean exactly dt integrated, failure must log the initial state.",
         "mock follows the documented CVODE/Odeint return protocol incl. CV_TOO_CLOSE/ILL_INPUT input checks; exhaustive only to the stated script depth"),
 "C04": ("runtime monitoring: conservation monitor over compiled ydot with injected rate coefficients",
         "Networks balanced by construction are rendered and executed; rate coefficients of arbitrary sign/magnitude are injected at the EvalRates seam and count-weighted sums of the compiled derivatives are checked to vanish relative to the sum of absolute terms; GetElementAbund is compared with the count-weighted abundance sum.",
         "compositions are the generator's; same lab as C01"),
}

def main():
    mf = json.loads((ROOT / "MANIFEST.json").read_text())
    checks, na = [], []
    props = [json.loads(l) for l in (ROOT / "properties.jsonl").read_text().splitlines() if l.strip()]
    for p in props:
        pid = p["id"]
        modf = ROOT / "verif" / "props" / f"{pid.lower()}.py"
        if not modf.exists() or pid not in TEXT:
            na.append({"property_id": pid, "reason": "check not built yet in this session (planned, see DESIGN.md section 3)"})
            continue
        mod = importlib.import_module(f"verif.props.{pid.lower()}")
        tech, text, note = TEXT[pid]
        checks.append({
            "property_id": pid,
            "quick_cmd": f"./check {pid} --tier quick",
            "thorough_cmd": f"./check {pid} --tier thorough",
            "evidence_file": f"/verif/evidence/{pid}.json",
            "replay_cmd_template": f"./check {pid} --replay {{path}}",
            "engine": "naunet-cxx-lab" if getattr(mod, "USES_LAB", True) else "python-monitors",
            "level_claimed": {"category": getattr(mod, "LEVEL", "exploration"), "text": text, "design_ref": f"DESIGN.md section 3 ({pid})"},
            "level_note": note,
            "technique": tech,
        })
    mf["checks"] = checks
    mf["not_applicable"] = na
    mf["engines"] = [
        {"name": "naunet-cxx-lab", "path": "verif/cxx", "serves_properties": [c["property_id"] for c in checks if c["engine"] == "naunet-cxx-lab"],
         "kind_free_text": "clang-14 ASan/UBSan builds of the generated C++ against SUNDIALS/Boost/CUDA shims, -D seams, command-driven drivers, scripted mock integrators"},
        {"name": "python-monitors", "path": "verif/props", "serves_properties": [c["property_id"] for c in checks if c["engine"] == "python-monitors"],
         "kind_free_text": "icontract contracts / hooks on the real generator + offline reference-model monitors over recorded observations"},
    ]
    (ROOT / "MANIFEST.json").write_text(json.dumps(mf, indent=1) + "\n")
    import jsonschema
    jsonschema.validate(mf, json.loads(Path("/root/.vp/MANIFEST.schema.json").read_text()))
    print("manifest ok:", len(checks), "checks,", len(na), "not applicable")

main()
