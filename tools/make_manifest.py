#!/usr/bin/env python3
"""Regenerate /verif/MANIFEST.json from the property modules that exist (keeps it valid at all times)."""
import json, importlib, sys
from pathlib import Path
ROOT = Path(__file__).resolve().parent.parent
sys.path.insert(0, str(ROOT))

TEXT = {
 "C01": ("runtime monitoring of the compiled generated RHS against a mass-action reference model",
         "The real generator renders seeded random networks for all four back-ends; the emitted Fex is compiled with ASan/UBSan and executed; an offline monitor recomputes every derivative from the abstract network with the rate vector logged at the EvalRates seam (or injected distinct O(1) rates). Held on the executions listed in the evidence, nothing more.",
         "shims for SUNDIALS/Boost/CUDA (CUDA kernels emulated on CPU), clang-14, species->slot read from compiled IDX_ macros via the documented alias convention"),
 "C02": ("runtime monitoring: numerical differentiation of the compiled frozen Fex (exact 4-point stencil) vs compiled Jac",
         "Rate coefficients, npar, mu and gamma are pinned through -D seams; the compiled Fex is differentiated with a stencil exact for degree<=4 polynomials and all n^2 entries are compared with the matrix the compiled Jac filled (dense, CSR decoded); cusparse/odeint matrices are compared with the analytic derivative of the abstract network.",
         "same lab as C01; stencil exactness relies on the frozen RHS being polynomial of degree <= 3 per abundance"),
 "C03": ("sanitizers (ASan + UBSan bounds) on generated code with exactly sized buffers + CSR/cross-layout monitor",
         "All four renderings of one Network are executed under AddressSanitizer/UBSan against shim buffers of exactly the declared sizes; CSR arrays as filled by the generated code are validated and compared bit for bit with dense/ublas assignments; jac_pattern.dat is compared with the stored entries.",
         "red-zone sanitizers miss far out-of-bounds accesses (>1 KiB past a heap buffer); bit-exactness relies on -O0 -ffp-contract=off"),
 "C05": ("runtime monitoring: compiled EvalRates vs independent implementation of the published rate laws, UBSan on",
         "Files of every gas-phase (format, type) with signed/zero/integer/extreme coefficients are read, rendered, and the emitted EvalRates is compiled and executed at several parameter points; every k is compared with laws re-implemented from the database papers (IEEE semantics). A rates unit that does not compile is the violation 'not valid C'.",
         "laws as printed in Wakelam+2012, McElroy+2013, Walsh+2015, Holdship+2017; shielded rates use the factor returned by the same compiled helper"),
 "C06": ("runtime monitoring with assignment sentinels: compiled EvalRates/Fex/Jac at ulp-resolved window boundaries",
         "The emitted EvalRates is executed one ulp below / at / above every declared bound on zero-initialised and NaN-prefilled rate arrays (assignment events), and Fex/Jac are swept up and down through the windows in one process with the rate vector logged at the seam (stale arrays).",
         "rates are alpha-only so that 'active' is observable as k == alpha; bound <= 0 means unbounded"),
 "C09": ("runtime monitoring: compiled index macros, executed Python constants, parsed summary and Enzo tables cross-checked",
         "Networks with the hard naming conventions are rendered through API, CLI and the Enzo patch; macros are compiled and printed by name, the Python constants modules are executed, the [summary] table and A_Table are parsed; bijectivity, identifier legality and agreement of names/order/counts are checked, and the patch must leave the network's aliases untouched; the patch is also rendered by a second `naunet render --patch enzo` process under another string-hash seed and its tables are compared with the project's macros.",
         "identifier legality = C identifier and not a Python keyword; orders are compared for mutual agreement, not recomputed"),
 "C10": ("compiler and linker diagnostics as events over a configuration grid, plus one executed call per entry point under sanitizers",
         "A grid of (formats, dust model, back-end incl. the cusparse method under CUDA emulation, shielding, thermal, network variants) is rendered; every emitted unit is compiled by clang-14 with sanitizers and by g++ -fsyntax-only against API shims, linked with the driver, and EvalRates/Fex/Jac/Renorm are called once. Weakest fit of the family: the deciding observation is a compiler's.",
         "shim headers stand in for SUNDIALS/Boost; refusals (exceptions at generation) are counted, not judged"),
 "C11": ("runtime monitoring: compiled grain rates vs independent HH93/RR07 formulae",
         "Leeds/UCLCHEM grain reactions are rendered under each dust model and the compiled EvalRates is compared, for randomised grain parameters and mantle abundances incl. zero, with formulae re-implemented from the model papers that take constants, eb_<alias> and mantle density from the compiled library; unsupported requests must raise; a binding-energy override after a first rendering must show in the next one.",
         "model formulae from Hasegawa&Herbst 1993 / Walsh+2015 and Roberts+2007 / UCLCHEM v1.3"),
 "C12": ("differential execution: compiled C translation vs gfortran-compiled original expression",
         "Expressions generated from the converter's own Fortran grammar, probes for known weak spots, out-of-grammar forms and the bundled KROME networks are translated by the real naunet, compiled and executed; reference values come from gfortran with double-precision defaults; a conditioning estimate (perturbed twin valuations) keeps ill-conditioned expressions from raising alarms; known defects are recognised by re-evaluating the alternative reading in Fortran.",
         "gfortran -fdefault-real-8 is the Fortran semantics; tolerance 1e-9 x max(|value|, sum|terms|)"),
 "C13": ("differential execution: compiled project with vs without modifiers, API and CLI entry",
         "The same network is rendered with and without rate/ODE modifiers (API or `naunet init --render`), both are compiled and executed on the same abundances; rate-vector and derivative differences are compared with the abstract modifier set; the TOML written by init is compared with the request.",
         "modifier expressions are evaluated in Python with the NaunetData values the harness sets"),
 "C16": ("runtime monitoring: compiled renormalisation (shim LU) vs reference ratios, UBSan float-divide-by-zero",
         "InitRenorm/RenormAbundance/SetReferenceAbund/Renorm of rendered cvode and odeint projects are executed on random positive vectors (two consecutive calls per stored reference); ratios are read back through the compiled GetElementAbund/GetHNuclei; the tolerance is the numerical noise floor of the prescribed algorithm obtained from an exact rational solve.",
         "dense LU of the shims stands in for SUNLinSol_Dense / ublas lu_factorize"),
 "C17": ("runtime monitoring across interpreter processes: digest comparison under hash seeds, repetition and interleaved foreign operations",
         "Each description is rendered in fresh child interpreters under four PYTHONHASHSEED values, twice in one process, and in schedules containing exactly one foreign operation (other element lists, prefixes, replacement table, binding energies, KROME directives, another rendering) before build, between build and render, or between renderings; sha256 per file against the fresh reference.",
         "only naunet version, project name and project date are masked"),
 "C18": ("runtime monitoring: write/read/write cycles + differential execution of exported-and-re-rendered vs direct project",
         "Networks from every format or the API are written, read back and compared field by field, written again (byte identity); the exported project is re-rendered with `naunet render`, compiled, and its EvalRates compared with the direct rendering at the printed precision; known law changes are recognised by re-evaluating the native law of the written type code.",
         "printed precision 10.3e / 9.2f; laws from C05's reference"),
 "C20": ("runtime monitoring across interpreter processes: TOML vs request, CLI-rendered vs API-rendered source digests",
         "Generated option strings go through the real `naunet init --render` in a fresh interpreter; the written configuration is compared key by key with the request and the rendered sources are compared (sha256 per file) with the equivalent Network(...).to_code() in another fresh interpreter; bundled examples through `naunet example`.",
         "API equivalent follows the steps of `naunet render`; name/version/date masked"),
 "C07": ("runtime monitoring: parser outputs vs abstract reactions encoded by independent encoders",
         "Files in all six formats are generated from abstract reactions by encoders written from the format descriptions and read by the real Network; every parsed field of every reaction and the number/order of reactions are compared with the abstract case, with blank/whitespace/comment/directive lines, CRLF and missing final newline interleaved.",
         "encoders and code->type tables follow the published format descriptions"),
 "C08": ("runtime monitoring: Species attributes vs the composition each name was rendered from",
         "Names are rendered from compositions under three naming configurations (default lists, upper-case list with replacement, custom prefix/grain symbol); element counts, charge, phase, gas name, mass number, is_atom and rewritten name are compared; garbage names must raise.",
         "ambiguous renderings are excluded by an independent tokenizer; mass numbers from an independent table"),
 "C14": ("icontract class invariant on the real Network + offline reference-model monitor over edit histories",
         "Random edit histories run against a Network that carries an icontract invariant (evaluated after every public call); after each step reaction identity/order, species, sources/sinks, where_species and indices are compared with a reference model that recomputes everything from surviving reactions; the same edits are driven through `naunet extend`. Thorough tier re-runs the repository tests with the invariant on.",
         "reaction identity by object id; remove(instance) specified as removing the whole equality class"),
 "C15": ("runtime monitoring: duplicate reports vs O(n^2) pairwise reference",
         "Reaction lists with planted equivalence classes (permutations, repeated species, window/type-only differences, mixed spellings) are checked in all four modes against a pairwise reference; removal must leave one representative per class.",
         "string modes compare names, default/brief compare chemical identity; UNKNOWN-typed reactions excluded (non-transitive equality)"),
 "C19": ("fault injection: scripted mock integrator driving the real generated Solve/HandleError under ASan",
         "The generated naunet.cpp is linked with a scripted mock CVODE/Odeint whose solution is linear in t, so integrated time is read off the state; integrator outcomes (recoverable, reset, unrecoverable flags, warnings, failing re-initialisation, step-budget overruns, integrator exceptions) are enumerated at every call position of the recovery ladder with partial progress; success must mean exactly dt integrated, failure must log the initial state. The cusparse method's Solve (no ladder, one CVode call per stream) runs under a CPU emulation of the CUDA surface with the same mock.",
         "mock follows the documented CVODE/Odeint return protocol incl. CV_TOO_CLOSE/ILL_INPUT input checks; exhaustive only to the stated script depth"),
 "C04": ("runtime monitoring: conservation monitor over compiled ydot with injected rate coefficients",
         "Networks balanced by construction are rendered and executed; rate coefficients of arbitrary sign/magnitude are injected at the EvalRates seam and count-weighted sums of the compiled derivatives are checked to vanish relative to the sum of absolute terms; GetElementAbund is compared with the count-weighted abundance sum.",
         "compositions are the generator's; same lab as C01"),
}

def main():
    mf = json.loads((ROOT / "MANIFEST.json").read_text())
    checks, na = [], []
    props = [json.loads(l) for l in (ROOT / "properties.jsonl").read_text().splitlines() if l.strip()]
    for p in props:
        pid = p["id"]
        modf = ROOT / "verif" / "props" / f"{pid.lower()}.py"
        if not modf.exists() or pid not in TEXT:
            na.append({"property_id": pid, "reason": "check not built yet in this session (planned, see DESIGN.md section 3)"})
            continue
        mod = importlib.import_module(f"verif.props.{pid.lower()}")
        tech, text, note = TEXT[pid]
        checks.append({
            "property_id": pid,
            "quick_cmd": f"./check {pid} --tier quick",
            "thorough_cmd": f"./check {pid} --tier thorough",
            "evidence_file": f"/verif/evidence/{pid}.json",
            "replay_cmd_template": f"./check {pid} --replay {{path}}",
            "engine": "naunet-cxx-lab" if getattr(mod, "USES_LAB", True) else "python-monitors",
            "level_claimed": {"category": getattr(mod, "LEVEL", "exploration"), "text": text, "design_ref": f"DESIGN.md section 3 ({pid})"},
            "level_note": note,
            "technique": tech,
        })
    mf["checks"] = checks
    mf["not_applicable"] = na
    mf["engines"] = [
        {"name": "naunet-cxx-lab", "path": "verif/cxx", "serves_properties": [c["property_id"] for c in checks if c["engine"] == "naunet-cxx-lab"],
         "kind_free_text": "clang-14 ASan/UBSan builds of the generated C++ against SUNDIALS/Boost/CUDA shims, -D seams, command-driven drivers, scripted mock integrators"},
        {"name": "python-monitors", "path": "verif/props", "serves_properties": [c["property_id"] for c in checks if c["engine"] == "python-monitors"],
         "kind_free_text": "icontract contracts / hooks on the real generator + offline reference-model monitors over recorded observations"},
    ]
    (ROOT / "MANIFEST.json").write_text(json.dumps(mf, indent=1) + "\n")
    import jsonschema
    jsonschema.validate(mf, json.loads(Path("/root/.vp/MANIFEST.schema.json").read_text()))
    print("manifest ok:", len(checks), "checks,", len(na), "not applicable")

main()
