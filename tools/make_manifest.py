#!/usr/bin/env python3
"""Regenerate /verif/MANIFEST.json from the property modules that exist (keeps it valid at all times)."""
import json, importlib, sys
from pathlib import Path
ROOT = Path(__file__).resolve().parent.parent
sys.path.insert(0, str(ROOT))

TEXT = {
 "C01": ("runtime monitoring of the compiled generated RHS against a mass-action reference model",
         "The real generator renders seeded random networks for all four back-ends; the emitted Fex is compiled with ASan/UBSan and executed; an offline monitor recomputes every derivative from the abstract network with the rate vector logged at the EvalRates seam (or injected distinct O(1) rates). Held on the executions listed in the evidence, nothing more.",
         "shims for SUNDIALS/Boost/CUDA (CUDA kernels emulated on CPU), clang-14, species->slot read from compiled IDX_ macros via the documented alias convention"),
 "C02": ("runtime monitoring: numerical differentiation of the compiled frozen Fex (exact 4-point stencil) vs compiled Jac",
         "Rate coefficients, npar, mu and gamma are pinned through -D seams; the compiled Fex is differentiated with a stencil exact for degree<=4 polynomials and all n^2 entries are compared with the matrix the compiled Jac filled (dense, CSR decoded); cusparse/odeint matrices are compared with the analytic derivative of the abstract network.",
         "same lab as C01; stencil exactness relies on the frozen RHS being polynomial of degree <= 3 per abundance"),
 "C03": ("sanitizers (ASan + UBSan bounds) on generated code with exactly sized buffers + CSR/cross-layout monitor",
         "All four renderings of one Network are executed under AddressSanitizer/UBSan against shim buffers of exactly the declared sizes; CSR arrays as filled by the generated code are validated and compared bit for bit with dense/ublas assignments; jac_pattern.dat is compared with the stored entries.",
         "red-zone sanitizers miss far out-of-bounds accesses (>1 KiB past a heap buffer); bit-exactness relies on -O0 -ffp-contract=off"),
 "C04": ("runtime monitoring: conservation monitor over compiled ydot with injected rate coefficients",
         "Networks balanced by construction are rendered and executed; rate coefficients of arbitrary sign/magnitude are injected at the EvalRates seam and count-weighted sums of the compiled derivatives are checked to vanish relative to the sum of absolute terms; GetElementAbund is compared with the count-weighted abundance sum.",
         "compositions are the generator's; same lab as C01"),
}

def main():
    mf = json.loads((ROOT / "MANIFEST.json").read_text())
    checks, na = [], []
    props = [json.loads(l) for l in (ROOT / "properties.jsonl").read_text().splitlines() if l.strip()]
    for p in props:
        pid = p["id"]
        modf = ROOT / "verif" / "props" / f"{pid.lower()}.py"
        if not modf.exists() or pid not in TEXT:
            na.append({"property_id": pid, "reason": "check not built yet in this session (planned, see DESIGN.md section 3)"})
            continue
        mod = importlib.import_module(f"verif.props.{pid.lower()}")
        tech, text, note = TEXT[pid]
        checks.append({
            "property_id": pid,
            "quick_cmd": f"./check {pid} --tier quick",
            "thorough_cmd": f"./check {pid} --tier thorough",
            "evidence_file": f"/verif/evidence/{pid}.json",
            "replay_cmd_template": f"./check {pid} --replay {{path}}",
            "engine": "naunet-cxx-lab" if getattr(mod, "USES_LAB", True) else "python-monitors",
            "level_claimed": {"category": getattr(mod, "LEVEL", "exploration"), "text": text, "design_ref": f"DESIGN.md section 3 ({pid})"},
            "level_note": note,
            "technique": tech,
        })
    mf["checks"] = checks
    mf["not_applicable"] = na
    mf["engines"] = [
        {"name": "naunet-cxx-lab", "path": "verif/cxx", "serves_properties": [c["property_id"] for c in checks if c["engine"] == "naunet-cxx-lab"],
         "kind_free_text": "clang-14 ASan/UBSan builds of the generated C++ against SUNDIALS/Boost/CUDA shims, -D seams, command-driven drivers, scripted mock integrators"},
        {"name": "python-monitors", "path": "verif/props", "serves_properties": [c["property_id"] for c in checks if c["engine"] == "python-monitors"],
         "kind_free_text": "icontract contracts / hooks on the real generator + offline reference-model monitors over recorded observations"},
    ]
    (ROOT / "MANIFEST.json").write_text(json.dumps(mf, indent=1) + "\n")
    import jsonschema
    jsonschema.validate(mf, json.loads(Path("/root/.vp/MANIFEST.schema.json").read_text()))
    print("manifest ok:", len(checks), "checks,", len(na), "not applicable")

main()
