#!/usr/bin/env python3
"""Confirm and score sub-agent seeded defects.

For every /tmp/seedout/<ID>/<x>/ (patch.diff, demo.*, meta.json) - or, when that directory is absent, every /verif/seeded/<ID>-<x>/:
  1. scratch worktree of /repo (outside /repo and /verif): patch applies, the repository tests give the baseline result,
     the demonstration fails with the patch and passes without it;
  2. apply the patch to /repo, run `./check <ID>` (quick, optionally thorough), undo straight afterwards;
  3. keep the change under /verif/seeded/<ID>-<x>/ with meta.json extended by what was run and which check caught it.
Usage: tools/seeded.py [ID[-x] ...] [--thorough] [--props C01,C03]   (extra --props: also run these checks)
"""
import json, os, shutil, subprocess, sys, time
from pathlib import Path

ROOT = Path(__file__).resolve().parent.parent
REPO = Path("/repo")
SRC = Path(os.environ.get("SEEDOUT", "/tmp/seedout"))
PY = "/venv/bin/python"
BASE_FAIL = {"tests/console/commands/test_example.py::test_command_example", "tests/test_network.py::test_export_empty_network",
             "tests/test_network.py::test_export_network"}


def sh(cmd, **kw):
    return subprocess.run(cmd, capture_output=True, text=True, **kw)


def run_tests(wt):
    env = dict(os.environ, PYTHONPATH=str(wt), TQDM_DISABLE="1")
    p = sh([PY, "-m", "pytest", "-q", "-p", "no:cacheprovider", "--timeout=900", "-rf"], cwd=str(wt), env=env, timeout=1800)
    failed = {l.split(" ")[1] for l in p.stdout.splitlines() if l.startswith("FAILED ")}
    passed = None
    for l in p.stdout.splitlines()[::-1]:
        if " passed" in l:
            try:
                passed = int(l.split(" passed")[0].split()[-1])
            except Exception:
                pass
            break
    return passed, failed


def run_demo(wt, demo):
    env = dict(os.environ, PYTHONPATH=str(wt), TQDM_DISABLE="1")
    cmd = [PY, str(demo)] if demo.suffix == ".py" else ["sh", str(demo)]
    try:
        p = sh(cmd, cwd=str(wt), env=env, timeout=900)
        return p.returncode
    except subprocess.TimeoutExpired:
        return -9


def main():
    args = [a for a in sys.argv[1:] if not a.startswith("--")]
    thorough = "--thorough" in sys.argv
    extra = []
    for a in sys.argv[1:]:
        if a.startswith("--props="):
            extra = a.split("=", 1)[1].split(",")
    items = []
    found = sorted(SRC.glob("C*/*/patch.diff"))
    if found:
        for d in found:
            pid, x = d.parent.parent.name, d.parent.name
            tag = f"{pid}-{x}"
            if args and not any(tag.startswith(a) for a in args):
                continue
            items.append((pid, x, d.parent))
    else:
        # the sub-agents' output directory is gone (fresh restore): re-score the confirmed changes kept under /verif/seeded
        for d in sorted((ROOT / "seeded").glob("C*-*/patch.diff")):
            pid, x = d.parent.name.split("-", 1)
            tag = f"{pid}-{x}"
            if args and not any(tag.startswith(a) for a in args):
                continue
            keep = Path(f"/tmp/seedsrc_{tag}")
            shutil.rmtree(keep, ignore_errors=True)
            shutil.copytree(d.parent, keep)
            items.append((pid, x, keep))
    for pid, x, d in items:
        tag = f"{pid}-{x}"
        out = ROOT / "seeded" / tag
        demo = next(iter(sorted(d.glob("demo.*"))), None)
        meta = json.loads((d / "meta.json").read_text()) if (d / "meta.json").exists() else {}
        wt = Path(f"/tmp/seedcheck_{tag}")
        sh(["git", "-C", str(REPO), "worktree", "remove", "--force", str(wt)])
        r = sh(["git", "-C", str(REPO), "worktree", "add", "-q", str(wt), "HEAD"])
        rec = {"tag": tag}
        try:
            ap = sh(["git", "-C", str(wt), "apply", "--check", str(d / "patch.diff")])
            rec["applies_to_current_head"] = ap.returncode == 0
            if ap.returncode != 0:
                # patches were made against an older HEAD: try 3-way
                ap = sh(["git", "-C", str(wt), "apply", "--3way", str(d / "patch.diff")])
                rec["applies_3way"] = ap.returncode == 0
                if ap.returncode != 0:
                    rec["error"] = ap.stderr[-400:]
                    print(tag, "PATCH DOES NOT APPLY", rec["error"]); continue
                sh(["git", "-C", str(wt), "reset", "-q"])
            else:
                sh(["git", "-C", str(wt), "apply", str(d / "patch.diff")])
            rec["demo_with_patch_rc"] = run_demo(wt, demo) if demo else None
            passed, failed = run_tests(wt)
            rec["tests_passed_with_patch"] = passed
            rec["tests_failed_with_patch"] = sorted(failed)
            rec["tests_ok"] = (failed <= BASE_FAIL) and passed == 82
            # normalised patch against the current HEAD
            norm = sh(["git", "-C", str(wt), "diff"]).stdout
            sh(["git", "-C", str(wt), "checkout", "--", "."])
            rec["demo_without_patch_rc"] = run_demo(wt, demo) if demo else None
        finally:
            sh(["git", "-C", str(REPO), "worktree", "remove", "--force", str(wt)])
            shutil.rmtree(wt, ignore_errors=True)
        rec["confirmed"] = bool(rec.get("tests_ok") and rec.get("demo_with_patch_rc") not in (0, None) and rec.get("demo_without_patch_rc") == 0)
        # ---- run the checks against /repo with the patch
        checks = {}
        if rec["confirmed"]:
            tmp = Path(f"/tmp/seedpatch_{tag}.diff")
            tmp.write_text(norm)
            # several instances may confirm in parallel; only one at a time may patch /repo
            import fcntl
            lock = open("/tmp/seeded_repo.lock", "w")
            fcntl.flock(lock, fcntl.LOCK_EX)
            a = sh(["git", "-C", str(REPO), "apply", str(tmp)])
            try:
                if a.returncode == 0:
                    for prop in [pid] + [e for e in extra if e != pid]:
                        for tier in (["quick", "thorough"] if thorough else ["quick"]):
                            t = time.time()
                            r = sh([str(ROOT / "check"), prop, "--tier", tier], cwd=str(ROOT), timeout=7200, env=dict(os.environ, VERIF_NO_EVIDENCE="1"))
                            verdict = "CAUGHT" if r.returncode == 1 and "VIOLATION" in r.stdout else ("INCONCLUSIVE" if r.returncode == 2 else "MISSED")
                            first = next((l for l in r.stdout.splitlines() if l.startswith(("VIOLATION", "INCONCLUSIVE"))), "")[:300]
                            checks[f"{prop}:{tier}"] = {"verdict": verdict, "wall_s": round(time.time() - t, 1), "first": first}
                            if verdict == "CAUGHT":
                                break
                else:
                    rec["error"] = "normalised patch does not apply to /repo: " + a.stderr[-300:]
            finally:
                sh(["git", "-C", str(REPO), "checkout", "--", "."])
                tmp.unlink(missing_ok=True)
            for prop_dir in (ROOT / "replay").glob("C*"):
                for f in prop_dir.glob("*.json"):
                    f.unlink(missing_ok=True)
            fcntl.flock(lock, fcntl.LOCK_UN)
            lock.close()
        rec["checks"] = checks
        print(tag, "confirmed" if rec["confirmed"] else "NOT-CONFIRMED", {k: v["verdict"] for k, v in checks.items()},
              {k: rec.get(k) for k in ("tests_ok", "demo_with_patch_rc", "demo_without_patch_rc")}, flush=True)
        if rec["confirmed"]:
            out.mkdir(parents=True, exist_ok=True)
            (out / "patch.diff").write_text(norm)
            if demo:
                shutil.copy(demo, out / demo.name)
            meta.update({"property": pid, "verification": rec,
                         "what_was_run": "scratch worktree of /repo: git apply, repository test-suite (82 pass / 3 baseline failures), demo with and without the patch; "
                                         "then git -C /repo apply, ./check <ID>, git -C /repo checkout -- ."})
            (out / "meta.json").write_text(json.dumps(meta, indent=1))
    for _pid, _x, d in items:
        if str(d).startswith("/tmp/seedsrc_"):
            shutil.rmtree(d, ignore_errors=True)
    st = sh(["git", "-C", str(REPO), "status", "--short", "--untracked-files=no"]).stdout
    print("repo status:", st.strip() or "clean")


main()
